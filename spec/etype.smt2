;; Encryption-type parameter tables, transcribed from RFC 3961 section 6.3 (des3-cbc-sha1-kd),
;; RFC 3962 section 6 (aes128/256-cts-hmac-sha1-96), RFC 8009 section 5 (aes128-cts-hmac-sha256-128,
;; aes256-cts-hmac-sha384-192), RFC 4757 (rc4-hmac) and the IANA Kerberos parameters registry.
;; Keyed by the dynamic type of the etype.EType value (tid.* = engine-generated type identifiers).
;; Assumption (listed in evidence): the implementations of etype.EType are exactly these six.
(define-fun et_known ((t Int)) Bool
  (or (= t tid.crypto.Des3CbcSha1Kd) (= t tid.crypto.Aes128CtsHmacSha96) (= t tid.crypto.Aes256CtsHmacSha96)
      (= t tid.crypto.Aes128CtsHmacSha256128) (= t tid.crypto.Aes256CtsHmacSha384192) (= t tid.crypto.RC4HMAC)))

;; IANA etype numbers
(define-fun et_id ((t Int)) (_ BitVec 32)
  (ite (= t tid.crypto.Des3CbcSha1Kd) #x00000010
  (ite (= t tid.crypto.Aes128CtsHmacSha96) #x00000011
  (ite (= t tid.crypto.Aes256CtsHmacSha96) #x00000012
  (ite (= t tid.crypto.Aes128CtsHmacSha256128) #x00000013
  (ite (= t tid.crypto.Aes256CtsHmacSha384192) #x00000014
  (ite (= t tid.crypto.RC4HMAC) #x00000017 #x00000000)))))))

;; IANA checksum type numbers: 12 hmac-sha1-des3-kd, 15/16 hmac-sha1-96-aes128/256,
;; 19 hmac-sha256-128-aes128, 20 hmac-sha384-192-aes256, -138 hmac-md5 (RFC 4757)
(define-fun et_cksumid ((t Int)) (_ BitVec 32)
  (ite (= t tid.crypto.Des3CbcSha1Kd) #x0000000c
  (ite (= t tid.crypto.Aes128CtsHmacSha96) #x0000000f
  (ite (= t tid.crypto.Aes256CtsHmacSha96) #x00000010
  (ite (= t tid.crypto.Aes128CtsHmacSha256128) #x00000013
  (ite (= t tid.crypto.Aes256CtsHmacSha384192) #x00000014
  (ite (= t tid.crypto.RC4HMAC) #xffffff76 #x00000000)))))))

;; protocol key length in bytes (RFC 3961 6.3: 24; RFC 3962 6: 16 / 32; RFC 8009 5: 16 / 32; RFC 4757: 16)
(define-fun et_protokeybytes ((t Int)) (_ BitVec 64)
  (ite (= t tid.crypto.Des3CbcSha1Kd) #x0000000000000018
  (ite (= t tid.crypto.Aes128CtsHmacSha96) #x0000000000000010
  (ite (= t tid.crypto.Aes256CtsHmacSha96) #x0000000000000020
  (ite (= t tid.crypto.Aes128CtsHmacSha256128) #x0000000000000010
  (ite (= t tid.crypto.Aes256CtsHmacSha384192) #x0000000000000020
  (ite (= t tid.crypto.RC4HMAC) #x0000000000000010 #x0000000000000000)))))))

;; value of the GetKeyByteSize getter. Helper contract derived from the code and its call sites: for
;; aes256-cts-hmac-sha384-192 the getters report the size of the checksum / integrity keys Kc, Ki (192 bits,
;; RFC 8009 5) and rfc8009 special-cases the 256-bit protocol key and Ke. The protocol key size the property
;; asks for is et_protokeybytes; consumers that use the getter as the protocol key size are checked against that.
(define-fun et_keybytes ((t Int)) (_ BitVec 64)
  (ite (= t tid.crypto.Aes256CtsHmacSha384192) #x0000000000000018 (et_protokeybytes t)))

;; value of the GetKeySeedBitLength getter (des3: 168; aes256-cts-hmac-sha384-192: 192 = Kc/Ki size, see et_keybytes; others: key size)
(define-fun et_seedbits ((t Int)) (_ BitVec 64)
  (ite (= t tid.crypto.Des3CbcSha1Kd) #x00000000000000a8
  (ite (= t tid.crypto.Aes128CtsHmacSha96) #x0000000000000080
  (ite (= t tid.crypto.Aes256CtsHmacSha96) #x0000000000000100
  (ite (= t tid.crypto.Aes128CtsHmacSha256128) #x0000000000000080
  (ite (= t tid.crypto.Aes256CtsHmacSha384192) #x00000000000000c0
  (ite (= t tid.crypto.RC4HMAC) #x0000000000000080 #x0000000000000000)))))))

;; HMAC output (truncated) length in bits
(define-fun et_hmacbits ((t Int)) (_ BitVec 64)
  (ite (= t tid.crypto.Des3CbcSha1Kd) #x00000000000000a0
  (ite (= t tid.crypto.Aes128CtsHmacSha96) #x0000000000000060
  (ite (= t tid.crypto.Aes256CtsHmacSha96) #x0000000000000060
  (ite (= t tid.crypto.Aes128CtsHmacSha256128) #x0000000000000080
  (ite (= t tid.crypto.Aes256CtsHmacSha384192) #x00000000000000c0
  (ite (= t tid.crypto.RC4HMAC) #x0000000000000080 #x0000000000000000)))))))

;; cipher block size in bits / confounder size in bytes / message block size in bytes
(define-fun et_blockbits ((t Int)) (_ BitVec 64)
  (ite (= t tid.crypto.Des3CbcSha1Kd) #x0000000000000040
  (ite (= t tid.crypto.RC4HMAC) #x0000000000000008 #x0000000000000080)))

(define-fun et_confounder ((t Int)) (_ BitVec 64)
  (ite (= t tid.crypto.Des3CbcSha1Kd) #x0000000000000008
  (ite (= t tid.crypto.RC4HMAC) #x0000000000000008 #x0000000000000010)))

(define-fun et_msgblock ((t Int)) (_ BitVec 64)
  (ite (= t tid.crypto.Des3CbcSha1Kd) #x0000000000000008 #x0000000000000001))

;; hash function constructor
(define-fun et_hashfn ((t Int)) Int
  (ite (= t tid.crypto.Des3CbcSha1Kd) fid.crypto.sha1.New
  (ite (= t tid.crypto.Aes128CtsHmacSha96) fid.crypto.sha1.New
  (ite (= t tid.crypto.Aes256CtsHmacSha96) fid.crypto.sha1.New
  (ite (= t tid.crypto.Aes128CtsHmacSha256128) fid.crypto.sha256.New
  (ite (= t tid.crypto.Aes256CtsHmacSha384192) fid.crypto.sha512.New384
  (ite (= t tid.crypto.RC4HMAC) fid.crypto.md5.New 0)))))))

;; size rules of the data path (RFC 3961 6.3: whole 8-byte blocks, 24-byte key; RFC 3962 6 / RFC 8009 5:
;; AES in CBC-CTS mode, any plaintext length; RFC 4757: stream cipher)
(define-fun et_encok ((t Int) (kl (_ BitVec 64)) (dl (_ BitVec 64))) Bool
  (and (= kl (et_protokeybytes t)) (et_known t)))

(define-fun et_ctlen ((t Int) (dl (_ BitVec 64))) (_ BitVec 64)
  (ite (= t tid.crypto.Des3CbcSha1Kd) (bvmul (bvudiv (bvadd dl #x0000000000000007) #x0000000000000008) #x0000000000000008)
  (ite (= t tid.crypto.RC4HMAC) dl
  (ite (bvsle dl #x0000000000000010) #x0000000000000010 dl))))

(define-fun et_decok ((t Int) (kl (_ BitVec 64)) (dl (_ BitVec 64))) Bool
  (and (= kl (et_protokeybytes t)) (et_known t)
    (ite (= t tid.crypto.Des3CbcSha1Kd) (and (bvsge dl #x0000000000000008) (= (bvurem dl #x0000000000000008) #x0000000000000000))
    (ite (= t tid.crypto.RC4HMAC) true (bvsge dl #x0000000000000010)))))

;; ---- RFC compositions over the uninterpreted primitives ----

;; RFC 3961 5.1: DR(Key, Constant) = k-truncate(E(Key, n-fold(Constant), initial-cipher-state)), iterated until long
;; enough. Uninterpreted at this level (per etype); property C08 relates rfc3961.DeriveRandom / Nfold to the RFC text.
(declare-fun et_dr (Int BSeq BSeq) BSeq)

;; RFC 3961 6.3.1: des3 random-to-key (56-bit stretching with parity and weak-key correction); other etypes: identity
(declare-fun des3_r2k (BSeq) BSeq)

(define-fun et_r2k ((t Int) (b BSeq)) BSeq
  (ite (= t tid.crypto.Des3CbcSha1Kd) (des3_r2k b) (ite (= t tid.crypto.RC4HMAC) (hashf fid.golang.org.x.crypto.md4.New b) b)))

;; the ASCII string "kerberos"
(define-fun is_kerberos ((l BSeq)) Bool
  (and (= (bseq.len l) #x0000000000000008)
    (= (bseq.at l #x0000000000000000) #x6b) (= (bseq.at l #x0000000000000001) #x65) (= (bseq.at l #x0000000000000002) #x72) (= (bseq.at l #x0000000000000003) #x62)
    (= (bseq.at l #x0000000000000004) #x65) (= (bseq.at l #x0000000000000005) #x72) (= (bseq.at l #x0000000000000006) #x6f) (= (bseq.at l #x0000000000000007) #x73)))

;; RFC 8009 5: output length k of KDF-HMAC-SHA2 in bits: aes128-cts-hmac-sha256-128: 128 for Kc, Ki, Ke and
;; string-to-key; aes256-cts-hmac-sha384-192: 192 for Kc and Ki, 256 for Ke (label ends in 0xAA) and string-to-key ("kerberos")
(define-fun kdf8009_bits ((t Int) (label BSeq)) (_ BitVec 64)
  (ite (= t tid.crypto.Aes256CtsHmacSha384192)
    (ite (or (= (bseq.at label (bvsub (bseq.len label) #x0000000000000001)) #xaa) (is_kerberos label)) #x0000000000000100 #x00000000000000c0)
    #x0000000000000080))

;; RFC 8009 3: KDF-HMAC-SHA2(key, label, [context,] k) = k-truncate(HMAC(key, 0x00000001 | label | 0x00 | [context |] k))
;; (k as a 32-bit big-endian integer)
(define-fun kdf_hmac_sha2 ((f Int) (key BSeq) (label BSeq) (context BSeq) (kbits (_ BitVec 64))) BSeq
  (seqtrunc (hmac f key (seqcat (seqcat (seqcat (seqcat (seqbe32 #x00000001) label) (seqbyte #x00)) context) (seqbe32 ((_ extract 31 0) kbits))))
            (bvudiv kbits #x0000000000000008)))

;; Key derivation of an encryption type, DeriveKey(protocol key, constant): RFC 3961 5.1 DK = random-to-key(DR(...))
;; (des3, aes-sha1), RFC 8009 KDF-HMAC-SHA2 (aes-sha2), RFC 4757: HMAC-MD5(key, constant)
(define-fun et_dk ((t Int) (k BSeq) (c BSeq)) BSeq
  (ite (or (= t tid.crypto.Aes128CtsHmacSha256128) (= t tid.crypto.Aes256CtsHmacSha384192))
    (kdf_hmac_sha2 (et_hashfn t) k c seqempty (kdf8009_bits t c))
  (ite (= t tid.crypto.RC4HMAC) (hmac fid.crypto.md5.New k c)
    (et_r2k t (et_dr t k c)))))

;; RFC 3961 5.3: the well-known constant is the key usage number in big-endian order followed by one octet
;; 0x99 (Kc), 0xAA (Ke) or 0x55 (Ki)
(define-fun usage_const ((u (_ BitVec 32)) (o (_ BitVec 8))) BSeq (seqcat (seqbe32 u) (seqbyte o)))

;; RFC 4757 3: usage 3 -> 8, 9 -> 8, 23 -> 13 (Microsoft message types)
(define-fun ms_usage ((u (_ BitVec 32))) (_ BitVec 32)
  (ite (= u #x00000003) #x00000008 (ite (= u #x00000009) #x00000008 (ite (= u #x00000017) #x0000000d u))))

;; the ASCII string "signaturekey" with its terminating zero octet (RFC 4757 4); seqlit.<hex> is the sequence
;; constant of a literal (declared by the engine with exactly these bytes)
(define-fun rc4_sigkey () BSeq (seqcat seqlit.7369676e61747572656b6579 (seqbyte #x00)))

;; RFC 4757 4: Ksign = HMAC(K, "signaturekey\0"); tmp = MD5(le32(T) | data); CHKSUM = HMAC(Ksign, tmp)
(define-fun rc4_cksum ((k BSeq) (u (_ BitVec 32)) (d BSeq)) BSeq
  (hmac fid.crypto.md5.New (hmac fid.crypto.md5.New k rc4_sigkey) (hashf fid.crypto.md5.New (seqcat (seqle32 (ms_usage u)) d))))

;; RFC 3961 5.3 / RFC 8009 5: keyed checksum = HMAC(Kc, data) truncated to the etype's output length, Kc = DK(key, usage | 0x99)
(define-fun simplified_cksum ((t Int) (k BSeq) (c BSeq) (d BSeq)) BSeq
  (seqtrunc (hmac (et_hashfn t) (et_dk t k c) d) (bvudiv (et_hmacbits t) #x0000000000000008)))

;; Keyed checksum of an encryption type over data with a key and key usage: the RFC-defined value
(define-fun et_cksum ((t Int) (k BSeq) (u (_ BitVec 32)) (d BSeq)) BSeq
  (ite (= t tid.crypto.RC4HMAC) (rc4_cksum k u d) (simplified_cksum t k (usage_const u #x99) d)))

;; IANA checksum type number -> encryption family (Kerberos parameters registry: 12, 15, 16, 19, 20; -138 RFC 4757)
(define-fun cksum_etype_ok ((id (_ BitVec 32)) (t Int)) Bool
  (and (et_known t) (= (et_cksumid t) id)))

;; ---- message decryption seen from the protocol layer ----
;; et_dec_ok / et_dec_pt: DecryptMessage of an encryption type succeeds / its plaintext (confounder removed). At this
;; level uninterpreted; properties C05/C06 relate them to the RFC compositions (HMAC over the decrypted data equals the tag).
(declare-fun et_dec_ok (Int BSeq (_ BitVec 32) BSeq) Bool)

(declare-fun et_dec_pt (Int BSeq (_ BitVec 32) BSeq) BSeq)

;; the implementation registered for an IANA etype number
(define-fun tag_of_etype ((id (_ BitVec 32))) Int
  (ite (= id #x00000010) tid.crypto.Des3CbcSha1Kd
  (ite (= id #x00000011) tid.crypto.Aes128CtsHmacSha96
  (ite (= id #x00000012) tid.crypto.Aes256CtsHmacSha96
  (ite (= id #x00000013) tid.crypto.Aes128CtsHmacSha256128
  (ite (= id #x00000014) tid.crypto.Aes256CtsHmacSha384192
  (ite (= id #x00000017) tid.crypto.RC4HMAC 0)))))))

;; decryption of an EncryptedData cipher under a key of the given type with a key usage
(define-fun krb_dec_ok ((kt (_ BitVec 32)) (k BSeq) (u (_ BitVec 32)) (c BSeq)) Bool
  (and (et_known (tag_of_etype kt)) (et_dec_ok (tag_of_etype kt) k u c)))

(define-fun krb_dec_pt ((kt (_ BitVec 32)) (k BSeq) (u (_ BitVec 32)) (c BSeq)) BSeq
  (et_dec_pt (tag_of_etype kt) k u c))

;; ---- string-to-key (property C08) ----
;; PBKDF2 (RFC 2898) with the HMAC of hash constructor f: password, salt, iteration count, key length in bytes
(declare-fun pbkdf2 (Int BSeq BSeq (_ BitVec 64) (_ BitVec 64)) BSeq)
(assert (forall ((f Int) (p BSeq) (s BSeq) (i (_ BitVec 64)) (n (_ BitVec 64)))
  (! (=> (bvsge n #x0000000000000000) (= (bseq.len (pbkdf2 f p s i n)) n)) :pattern ((pbkdf2 f p s i n)))))

;; hexadecimal text <-> bytes (encoding/hex); decoding an encoding gives the bytes back
(declare-fun hexdec (Str) BSeq)

(declare-fun hexenc (BSeq) Str)
(assert (forall ((b BSeq)) (! (= (hexdec (hexenc b)) b) :pattern ((hexenc b)))))
(assert (forall ((b BSeq)) (! (= (strlen (hexenc b)) (bvadd (bseq.len b) (bseq.len b))) :pattern ((hexenc b)))))

;; first four bytes of a sequence as a big-endian number
(define-fun seqbe32val ((s BSeq)) (_ BitVec 32)
  (concat (bseq.at s #x0000000000000000) (concat (bseq.at s #x0000000000000001) (concat (bseq.at s #x0000000000000002) (bseq.at s #x0000000000000003)))))

;; RFC 3962 4: iteration count from the 4-octet parameter, 0 meaning 2^32
(define-fun iters_3962 ((p Str)) (_ BitVec 64)
  (ite (= (seqbe32val (hexdec p)) #x00000000) #x0000000100000000 ((_ zero_extend 32) (seqbe32val (hexdec p)))))

;; RFC 8009 4: iteration count is the 4-octet parameter as an unsigned number
(define-fun iters_8009 ((p Str)) (_ BitVec 64) ((_ zero_extend 32) (seqbe32val (hexdec p))))

;; RFC 3962 4: tkey = random-to-key(PBKDF2(passphrase, salt, iter_count, keylength)); key = DK(tkey, "kerberos")
(define-fun s2k_3962 ((t Int) (pw BSeq) (salt BSeq) (iter (_ BitVec 64))) BSeq
  (et_dk t (et_r2k t (pbkdf2 fid.crypto.sha1.New pw salt iter (et_keybytes t))) seqlit.6b65726265726f73))

;; RFC 8009 4: saltp = enctype-name | 0x00 | salt; tkey = random-to-key(PBKDF2(passphrase, saltp, iter_count, keylength));
;; base-key = KDF-HMAC-SHA2(tkey, "kerberos", keylength)
(define-fun s2k_8009 ((t Int) (pw BSeq) (saltp BSeq) (iter (_ BitVec 64))) BSeq
  (et_dk t (et_r2k t (pbkdf2 (et_hashfn t) pw saltp iter (et_protokeybytes t))) seqlit.6b65726265726f73))

;; RFC 3961 5.1: n-fold (uninterpreted here; the implementation is checked against an independent one by the bounded stand-in)
(declare-fun nfold (BSeq (_ BitVec 64)) BSeq)

;; RFC 3961 6.3.1: des3 string-to-key: DK(random-to-key(168-fold(passphrase | salt)), "kerberos")
(define-fun s2k_des3 ((t Int) (pw BSeq) (salt BSeq)) BSeq
  (et_dk t (des3_r2k (nfold (seqcat pw salt) #x00000000000000a8)) seqlit.6b65726265726f73))

;; RFC 4757 2: the key is MD4 of the UTF-16LE encoding of the password; utf16le is the encoding function
(declare-fun utf16le (BSeq) BSeq)

(define-fun s2k_rc4 ((pw BSeq)) BSeq (hashf fid.golang.org.x.crypto.md4.New (utf16le pw)))

;; string-to-key of an etype (RFC 3961 6.3.1, RFC 3962 4, RFC 8009 4, RFC 4757 2); params is the hex text of the
;; 4-octet iteration count for the AES types
(define-fun et_s2k ((t Int) (pw BSeq) (salt BSeq) (params Str)) BSeq
  (ite (= t tid.crypto.Des3CbcSha1Kd) (s2k_des3 t pw salt)
  (ite (or (= t tid.crypto.Aes128CtsHmacSha96) (= t tid.crypto.Aes256CtsHmacSha96)) (s2k_3962 t pw salt (iters_3962 params))
  (ite (= t tid.crypto.Aes128CtsHmacSha256128)
     (s2k_8009 t pw (seqcat (seqcat seqlit.6165733132382d6374732d686d61632d7368613235362d313238 (seqbyte #x00)) salt) (iters_8009 params))
  (ite (= t tid.crypto.Aes256CtsHmacSha384192)
     (s2k_8009 t pw (seqcat (seqcat seqlit.6165733235362d6374732d686d61632d7368613338342d313932 (seqbyte #x00)) salt) (iters_8009 params))
  (s2k_rc4 pw))))))

;; utf16le(pw): the UTF-16 code units of the runes of pw, each as two octets, low octet first (RFC 4757 2)
(define-fun utf16units ((pw BSeq)) (Array (_ BitVec 64) (_ BitVec 16)) (utf16.arr (runes.arr pw) #x0000000000000000 (runes.len pw)))

(define-fun utf16count ((pw BSeq)) (_ BitVec 64) (utf16.len (runes.arr pw) #x0000000000000000 (runes.len pw)))
;; include-with: utf16le
(assert (forall ((pw BSeq)) (! (= (bseq.len (utf16le pw)) (bvadd (utf16count pw) (utf16count pw))) :pattern ((utf16le pw)))))
(assert (forall ((pw BSeq) (j (_ BitVec 64)))
  (! (= (bseq.at (utf16le pw) j)
        (ite (= ((_ extract 0 0) j) #b0) ((_ extract 7 0) (select (utf16units pw) (bvlshr j #x0000000000000001)))
                                         ((_ extract 15 8) (select (utf16units pw) (bvlshr j #x0000000000000001)))))
     :pattern ((bseq.at (utf16le pw) j)))))

;; ---- PA-DATA carrying string-to-key information (RFC 4120 5.2.7.4 / 5.2.7.5): first entry of a decoded
;; ETYPE-INFO2 / ETYPE-INFO sequence as uninterpreted functions of the encoded bytes (the ASN.1 decoder is trusted)
(declare-fun eti2_n (BSeq) (_ BitVec 64))

(declare-fun eti2_etype (BSeq) (_ BitVec 32))

(declare-fun eti2_salt (BSeq) BSeq)

(declare-fun eti2_s2kp (BSeq) BSeq)

(declare-fun eti_n (BSeq) (_ BitVec 64))

(declare-fun eti_etype (BSeq) (_ BitVec 32))

(declare-fun eti_salt (BSeq) BSeq)

;; default string-to-key parameters of an etype as text (what GetDefaultStringToKeyParams returns)
(declare-fun et_defparams (Int) Str)

;; ---- message encryption (properties C05 / C06) ----
;; Block-cipher modes as uninterpreted functions of (key, iv, data): AES in CBC-CTS mode (RFC 3962 5, aescts
;; dependency), three-key triple-DES in CBC mode, and the RC4 key stream. Decrypting an encryption gives the data back.
(declare-fun aescts_enc (BSeq BSeq BSeq) BSeq)
(assert (forall ((k BSeq) (iv BSeq) (p BSeq)) (! (=> (bvsge (bseq.len p) #x0000000000000010) (= (bseq.len (aescts_enc k iv p)) (bseq.len p))) :pattern ((aescts_enc k iv p)))))

(declare-fun aescts_dec (BSeq BSeq BSeq) BSeq)
(assert (forall ((k BSeq) (iv BSeq) (c BSeq)) (! (= (bseq.len (aescts_dec k iv c)) (bseq.len c)) :pattern ((aescts_dec k iv c)))))
(assert (forall ((k BSeq) (iv BSeq) (p BSeq)) (! (=> (bvsge (bseq.len p) #x0000000000000010) (= (aescts_dec k iv (aescts_enc k iv p)) p)) :pattern ((aescts_enc k iv p)))))

(declare-fun des3cbc_enc (BSeq BSeq BSeq) BSeq)
(assert (forall ((k BSeq) (iv BSeq) (p BSeq)) (! (= (bseq.len (des3cbc_enc k iv p)) (bseq.len p)) :pattern ((des3cbc_enc k iv p)))))

(declare-fun des3cbc_dec (BSeq BSeq BSeq) BSeq)
(assert (forall ((k BSeq) (iv BSeq) (c BSeq)) (! (= (bseq.len (des3cbc_dec k iv c)) (bseq.len c)) :pattern ((des3cbc_dec k iv c)))))
(assert (forall ((k BSeq) (iv BSeq) (p BSeq)) (! (= (des3cbc_dec k iv (des3cbc_enc k iv p)) p) :pattern ((des3cbc_enc k iv p)))))

(declare-fun rc4stream (BSeq BSeq) BSeq)
(assert (forall ((k BSeq) (d BSeq)) (! (= (bseq.len (rc4stream k d)) (bseq.len d)) :pattern ((rc4stream k d)))))
(assert (forall ((k BSeq) (d BSeq)) (! (= (rc4stream k (rc4stream k d)) d) :pattern ((rc4stream k (rc4stream k d))))))

;; raw encryption / decryption of an etype with its all-zero initial state (RFC 3961 6.3, RFC 3962 5, RFC 8009 5, RFC 4757 5)
(define-fun et_E ((t Int) (k BSeq) (d BSeq)) BSeq
  (ite (= t tid.crypto.Des3CbcSha1Kd) (des3cbc_enc k (seqzeros #x0000000000000008) d)
  (ite (= t tid.crypto.RC4HMAC) (rc4stream k d) (aescts_enc k (seqzeros #x0000000000000010) d))))

(define-fun et_D ((t Int) (k BSeq) (c BSeq)) BSeq
  (ite (= t tid.crypto.Des3CbcSha1Kd) (des3cbc_dec k (seqzeros #x0000000000000008) c)
  (ite (= t tid.crypto.RC4HMAC) (rc4stream k c) (aescts_dec k (seqzeros #x0000000000000010) c))))

;; basic laws of sequences used by the round-trip lemmas (consequences of the pointwise axioms and extensionality)
;; include-with: et_E
(assert (forall ((a BSeq) (b BSeq)) (! (= (seqtrunc (seqcat a b) (bseq.len a)) a) :pattern ((seqcat a b)))))
(assert (forall ((a BSeq) (b BSeq)) (! (= (seqsub (seqcat a b) (bseq.len a) (bvadd (bseq.len a) (bseq.len b))) b) :pattern ((seqcat a b)))))

;; RFC 3961 5.3 simplified profile (des3, AES-SHA1): ciphertext = E(Ke, conf | msg | pad) | HMAC(Ki, conf | msg | pad)
;; with Ke = DK(key, usage | 0xAA), Ki = DK(key, usage | 0x55); plain is conf | msg | pad
(define-fun enc_3961 ((t Int) (key BSeq) (u (_ BitVec 32)) (plain BSeq)) BSeq
  (seqcat (et_E t (et_dk t key (usage_const u #xaa)) plain) (simplified_cksum t key (usage_const u #x55) plain)))

;; RFC 8009 5: ciphertext = C | HMAC(Ki, IV | C) with C = AES-CTS(Ke, conf | msg) and the all-zero IV
(define-fun enc_8009 ((t Int) (key BSeq) (u (_ BitVec 32)) (plain BSeq)) BSeq
  (seqcat (et_E t (et_dk t key (usage_const u #xaa)) plain)
          (simplified_cksum t key (usage_const u #x55) (seqcat (seqzeros #x0000000000000010) (et_E t (et_dk t key (usage_const u #xaa)) plain)))))

;; RFC 4757 5: K2 = HMAC(key, msusage); chk = HMAC(K2, conf | data); K3 = HMAC(K2, chk); ciphertext = chk | RC4(K3, conf | data)
(define-fun enc_4757 ((key BSeq) (u (_ BitVec 32)) (plain BSeq)) BSeq
  (seqcat (hmac fid.crypto.md5.New (hmac fid.crypto.md5.New key (seqle32 (ms_usage u))) plain)
          (rc4stream (hmac fid.crypto.md5.New (hmac fid.crypto.md5.New key (seqle32 (ms_usage u))) (hmac fid.crypto.md5.New (hmac fid.crypto.md5.New key (seqle32 (ms_usage u))) plain)) plain)))
