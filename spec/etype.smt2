;; Encryption-type parameter tables, transcribed from RFC 3961 section 6.3 (des3-cbc-sha1-kd),
;; RFC 3962 section 6 (aes128/256-cts-hmac-sha1-96), RFC 8009 section 5 (aes128-cts-hmac-sha256-128,
;; aes256-cts-hmac-sha384-192), RFC 4757 (rc4-hmac) and the IANA Kerberos parameters registry.
;; Keyed by the dynamic type of the etype.EType value (tid.* = engine-generated type identifiers).
;; Assumption (listed in evidence): the implementations of etype.EType are exactly these six.
(define-fun et_known ((t Int)) Bool
  (or (= t tid.crypto.Des3CbcSha1Kd) (= t tid.crypto.Aes128CtsHmacSha96) (= t tid.crypto.Aes256CtsHmacSha96)
      (= t tid.crypto.Aes128CtsHmacSha256128) (= t tid.crypto.Aes256CtsHmacSha384192) (= t tid.crypto.RC4HMAC)))

;; IANA etype numbers
(define-fun et_id ((t Int)) (_ BitVec 32)
  (ite (= t tid.crypto.Des3CbcSha1Kd) #x00000010
  (ite (= t tid.crypto.Aes128CtsHmacSha96) #x00000011
  (ite (= t tid.crypto.Aes256CtsHmacSha96) #x00000012
  (ite (= t tid.crypto.Aes128CtsHmacSha256128) #x00000013
  (ite (= t tid.crypto.Aes256CtsHmacSha384192) #x00000014
  (ite (= t tid.crypto.RC4HMAC) #x00000017 #x00000000)))))))

;; IANA checksum type numbers: 12 hmac-sha1-des3-kd, 15/16 hmac-sha1-96-aes128/256,
;; 19 hmac-sha256-128-aes128, 20 hmac-sha384-192-aes256, -138 hmac-md5 (RFC 4757)
(define-fun et_cksumid ((t Int)) (_ BitVec 32)
  (ite (= t tid.crypto.Des3CbcSha1Kd) #x0000000c
  (ite (= t tid.crypto.Aes128CtsHmacSha96) #x0000000f
  (ite (= t tid.crypto.Aes256CtsHmacSha96) #x00000010
  (ite (= t tid.crypto.Aes128CtsHmacSha256128) #x00000013
  (ite (= t tid.crypto.Aes256CtsHmacSha384192) #x00000014
  (ite (= t tid.crypto.RC4HMAC) #xffffff76 #x00000000)))))))

;; protocol key length in bytes
(define-fun et_keybytes ((t Int)) (_ BitVec 64)
  (ite (= t tid.crypto.Des3CbcSha1Kd) #x0000000000000018
  (ite (= t tid.crypto.Aes128CtsHmacSha96) #x0000000000000010
  (ite (= t tid.crypto.Aes256CtsHmacSha96) #x0000000000000020
  (ite (= t tid.crypto.Aes128CtsHmacSha256128) #x0000000000000010
  (ite (= t tid.crypto.Aes256CtsHmacSha384192) #x0000000000000020
  (ite (= t tid.crypto.RC4HMAC) #x0000000000000010 #x0000000000000000)))))))

;; key-generation seed length in bits (des3: 168; others: key size)
(define-fun et_seedbits ((t Int)) (_ BitVec 64)
  (ite (= t tid.crypto.Des3CbcSha1Kd) #x00000000000000a8
  (ite (= t tid.crypto.Aes128CtsHmacSha96) #x0000000000000080
  (ite (= t tid.crypto.Aes256CtsHmacSha96) #x0000000000000100
  (ite (= t tid.crypto.Aes128CtsHmacSha256128) #x0000000000000080
  (ite (= t tid.crypto.Aes256CtsHmacSha384192) #x0000000000000100
  (ite (= t tid.crypto.RC4HMAC) #x0000000000000080 #x0000000000000000)))))))

;; HMAC output (truncated) length in bits
(define-fun et_hmacbits ((t Int)) (_ BitVec 64)
  (ite (= t tid.crypto.Des3CbcSha1Kd) #x00000000000000a0
  (ite (= t tid.crypto.Aes128CtsHmacSha96) #x0000000000000060
  (ite (= t tid.crypto.Aes256CtsHmacSha96) #x0000000000000060
  (ite (= t tid.crypto.Aes128CtsHmacSha256128) #x0000000000000080
  (ite (= t tid.crypto.Aes256CtsHmacSha384192) #x00000000000000c0
  (ite (= t tid.crypto.RC4HMAC) #x0000000000000080 #x0000000000000000)))))))

;; cipher block size in bits / confounder size in bytes / message block size in bytes
(define-fun et_blockbits ((t Int)) (_ BitVec 64)
  (ite (= t tid.crypto.Des3CbcSha1Kd) #x0000000000000040
  (ite (= t tid.crypto.RC4HMAC) #x0000000000000008 #x0000000000000080)))

(define-fun et_confounder ((t Int)) (_ BitVec 64)
  (ite (= t tid.crypto.Des3CbcSha1Kd) #x0000000000000008
  (ite (= t tid.crypto.RC4HMAC) #x0000000000000008 #x0000000000000010)))

(define-fun et_msgblock ((t Int)) (_ BitVec 64)
  (ite (= t tid.crypto.Des3CbcSha1Kd) #x0000000000000008 #x0000000000000001))

;; hash function constructor
(define-fun et_hashfn ((t Int)) Int
  (ite (= t tid.crypto.Des3CbcSha1Kd) fid.crypto.sha1.New
  (ite (= t tid.crypto.Aes128CtsHmacSha96) fid.crypto.sha1.New
  (ite (= t tid.crypto.Aes256CtsHmacSha96) fid.crypto.sha1.New
  (ite (= t tid.crypto.Aes128CtsHmacSha256128) fid.crypto.sha256.New
  (ite (= t tid.crypto.Aes256CtsHmacSha384192) fid.crypto.sha512.New384
  (ite (= t tid.crypto.RC4HMAC) fid.crypto.md5.New 0)))))))

;; size rules of the data path (RFC 3961 6.3: whole 8-byte blocks, 24-byte key; RFC 3962 6 / RFC 8009 5:
;; AES in CBC-CTS mode, any plaintext length; RFC 4757: stream cipher)
(define-fun et_encok ((t Int) (kl (_ BitVec 64)) (dl (_ BitVec 64))) Bool
  (and (= kl (et_keybytes t)) (et_known t)))

(define-fun et_ctlen ((t Int) (dl (_ BitVec 64))) (_ BitVec 64)
  (ite (= t tid.crypto.Des3CbcSha1Kd) (bvmul (bvudiv (bvadd dl #x0000000000000007) #x0000000000000008) #x0000000000000008)
  (ite (= t tid.crypto.RC4HMAC) dl
  (ite (bvsle dl #x0000000000000010) #x0000000000000010 dl))))

(define-fun et_decok ((t Int) (kl (_ BitVec 64)) (dl (_ BitVec 64))) Bool
  (and (= kl (et_keybytes t)) (et_known t)
    (ite (= t tid.crypto.Des3CbcSha1Kd) (and (bvsge dl #x0000000000000008) (= (bvurem dl #x0000000000000008) #x0000000000000000))
    (ite (= t tid.crypto.RC4HMAC) true (bvsge dl #x0000000000000010)))))

;; Keyed checksum of an encryption type over data with a key and key usage: the RFC-defined value
;; (RFC 3961 5.3 / RFC 8009 5 / RFC 4757 4). Uninterpreted here; C07 connects it to the HMAC composition.
(declare-fun et_cksum (Int BSeq (_ BitVec 32) BSeq) BSeq)
