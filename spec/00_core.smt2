;; Core sorts and symbols shared by specs and models. A chunk (text between blank lines) is included in a
;; query when one of the symbols it declares is used; axioms live in the chunk of the symbol they define.

;; BSeq: byte strings as values (arguments of uninterpreted crypto / codec primitives). Only the octets inside the
;; length of a sequence are specified: every pointwise axiom is guarded by the index range, because sequences are
;; also compared for equality (an unguarded axiom would make out-of-range octets of equal sequences collide).
(declare-sort BSeq 0)

(declare-fun bseq.len (BSeq) (_ BitVec 64))
;; (no global bound on lengths: with a wrapping sum for concatenations a global "len >= 0" would be inconsistent;
;; non-negativity comes from the constructors)

(declare-fun bseq.at (BSeq (_ BitVec 64)) (_ BitVec 8))

;; sequences built from memory: length and elements (extensional reading of BSeq)
(declare-fun bseq.of ((Array (_ BitVec 64) (_ BitVec 8)) (_ BitVec 64) (_ BitVec 64)) BSeq)
(assert (forall ((a (Array (_ BitVec 64) (_ BitVec 8))) (o (_ BitVec 64)) (n (_ BitVec 64)))
  (! (=> (bvsge n #x0000000000000000) (= (bseq.len (bseq.of a o n)) n)) :pattern ((bseq.of a o n)))))
(assert (forall ((a (Array (_ BitVec 64) (_ BitVec 8))) (o (_ BitVec 64)) (n (_ BitVec 64)) (i (_ BitVec 64)))
  (! (=> (and (bvsle #x0000000000000000 i) (bvslt i n)) (= (bseq.at (bseq.of a o n) i) (select a (bvadd o i))))
     :pattern ((bseq.at (bseq.of a o n) i)))))

(define-fun seqlen ((s BSeq)) (_ BitVec 64) (bseq.len s))

(define-fun seqat ((s BSeq) (i (_ BitVec 64))) (_ BitVec 8) (bseq.at s i))

;; hash objects: digest size of the hash object at a reference
(declare-fun hsize (Int) (_ BitVec 64))

;; digest sizes of the hash constructors (FIPS 180-4, RFC 1321, RFC 1320)
(define-fun hashsize ((f Int)) (_ BitVec 64)
  (ite (= f fid.crypto.sha1.New) #x0000000000000014
  (ite (= f fid.crypto.sha256.New) #x0000000000000020
  (ite (= f fid.crypto.sha512.New384) #x0000000000000030
  (ite (= f fid.crypto.md5.New) #x0000000000000010
  (ite (= f fid.golang.org.x.crypto.md4.New) #x0000000000000010
  #x0000000000000000))))))

;; substring relation shared by the models of strings.Contains / Split / SplitN
(declare-fun str_contains (Str Str) Bool)

;; ---- constructors on byte sequences (defined pointwise; used by the RFC compositions) ----
(declare-const seqempty BSeq)
(assert (= (bseq.len seqempty) #x0000000000000000))

(declare-fun seqcat (BSeq BSeq) BSeq)
(assert (forall ((a BSeq) (b BSeq)) (! (= (bseq.len (seqcat a b)) (bvadd (bseq.len a) (bseq.len b))) :pattern ((seqcat a b)))))
(assert (forall ((a BSeq) (b BSeq) (i (_ BitVec 64)))
  (! (=> (and (bvsle #x0000000000000000 i) (bvslt i (bvadd (bseq.len a) (bseq.len b))))
         (= (bseq.at (seqcat a b) i) (ite (bvslt i (bseq.len a)) (bseq.at a i) (bseq.at b (bvsub i (bseq.len a))))))
     :pattern ((bseq.at (seqcat a b) i)))))

;; first n bytes
(declare-fun seqtrunc (BSeq (_ BitVec 64)) BSeq)
(assert (forall ((s BSeq) (n (_ BitVec 64)))
  (! (=> (and (bvsle #x0000000000000000 n) (bvsle n (bseq.len s))) (= (bseq.len (seqtrunc s n)) n)) :pattern ((seqtrunc s n)))))
(assert (forall ((s BSeq) (n (_ BitVec 64)) (i (_ BitVec 64)))
  (! (=> (and (bvsle #x0000000000000000 i) (bvslt i n)) (= (bseq.at (seqtrunc s n) i) (bseq.at s i))) :pattern ((bseq.at (seqtrunc s n) i)))))

;; bytes [i, j)
(declare-fun seqsub (BSeq (_ BitVec 64) (_ BitVec 64)) BSeq)
(assert (forall ((s BSeq) (i (_ BitVec 64)) (j (_ BitVec 64)))
  (! (=> (and (bvsle #x0000000000000000 i) (bvsle i j) (bvsle j (bseq.len s))) (= (bseq.len (seqsub s i j)) (bvsub j i))) :pattern ((seqsub s i j)))))
(assert (forall ((s BSeq) (i (_ BitVec 64)) (j (_ BitVec 64)) (k (_ BitVec 64)))
  (! (=> (and (bvsle #x0000000000000000 k) (bvslt k (bvsub j i))) (= (bseq.at (seqsub s i j) k) (bseq.at s (bvadd i k)))) :pattern ((bseq.at (seqsub s i j) k)))))

(declare-fun seqzeros ((_ BitVec 64)) BSeq)
(assert (forall ((n (_ BitVec 64))) (! (=> (bvsle #x0000000000000000 n) (= (bseq.len (seqzeros n)) n)) :pattern ((seqzeros n)))))
(assert (forall ((n (_ BitVec 64)) (i (_ BitVec 64))) (! (=> (and (bvsle #x0000000000000000 i) (bvslt i n)) (= (bseq.at (seqzeros n) i) #x00)) :pattern ((bseq.at (seqzeros n) i)))))

(declare-fun seqbyte ((_ BitVec 8)) BSeq)
(assert (forall ((b (_ BitVec 8))) (! (and (= (bseq.len (seqbyte b)) #x0000000000000001) (= (bseq.at (seqbyte b) #x0000000000000000) b)) :pattern ((seqbyte b)))))

;; 32-bit big-endian / little-endian encodings
(declare-fun seqbe32 ((_ BitVec 32)) BSeq)
(assert (forall ((x (_ BitVec 32))) (! (and (= (bseq.len (seqbe32 x)) #x0000000000000004)
  (= (bseq.at (seqbe32 x) #x0000000000000000) ((_ extract 31 24) x)) (= (bseq.at (seqbe32 x) #x0000000000000001) ((_ extract 23 16) x))
  (= (bseq.at (seqbe32 x) #x0000000000000002) ((_ extract 15 8) x)) (= (bseq.at (seqbe32 x) #x0000000000000003) ((_ extract 7 0) x))) :pattern ((seqbe32 x)))))

(declare-fun seqle32 ((_ BitVec 32)) BSeq)
(assert (forall ((x (_ BitVec 32))) (! (and (= (bseq.len (seqle32 x)) #x0000000000000004)
  (= (bseq.at (seqle32 x) #x0000000000000000) ((_ extract 7 0) x)) (= (bseq.at (seqle32 x) #x0000000000000001) ((_ extract 15 8) x))
  (= (bseq.at (seqle32 x) #x0000000000000002) ((_ extract 23 16) x)) (= (bseq.at (seqle32 x) #x0000000000000003) ((_ extract 31 24) x))) :pattern ((seqle32 x)))))

;; ---- uninterpreted cryptographic primitives (that they are HMAC / MD5 / AES ... is not gokrb5 code) ----
(declare-fun hmac (Int BSeq BSeq) BSeq)
(assert (forall ((f Int) (k BSeq) (d BSeq)) (! (= (bseq.len (hmac f k d)) (hashsize f)) :pattern ((hmac f k d)))))

(declare-fun hashf (Int BSeq) BSeq)
(assert (forall ((f Int) (d BSeq)) (! (= (bseq.len (hashf f d)) (hashsize f)) :pattern ((hashf f d)))))

;; small memory sequences as constructors (valid pointwise): one byte, four bytes big-/little-endian, empty
;; include-with: bseq.of
(declare-fun seqnorm () Bool)
(assert (forall ((a (Array (_ BitVec 64) (_ BitVec 8))) (o (_ BitVec 64)))
  (! (= (bseq.of a o #x0000000000000001) (seqbyte (select a o))) :pattern ((bseq.of a o #x0000000000000001)))))
(assert (forall ((a (Array (_ BitVec 64) (_ BitVec 8))) (o (_ BitVec 64)))
  (! (= (bseq.of a o #x0000000000000004)
        (seqbe32 (concat (select a o) (concat (select a (bvadd o #x0000000000000001)) (concat (select a (bvadd o #x0000000000000002)) (select a (bvadd o #x0000000000000003)))))))
     :pattern ((bseq.of a o #x0000000000000004)))))
(assert (forall ((a (Array (_ BitVec 64) (_ BitVec 8))) (o (_ BitVec 64)))
  (! (= (bseq.of a o #x0000000000000004)
        (seqle32 (concat (select a (bvadd o #x0000000000000003)) (concat (select a (bvadd o #x0000000000000002)) (concat (select a (bvadd o #x0000000000000001)) (select a o))))))
     :pattern ((bseq.of a o #x0000000000000004)))))
(assert (forall ((a (Array (_ BitVec 64) (_ BitVec 8))) (o (_ BitVec 64)))
  (! (= (bseq.of a o #x0000000000000000) seqempty) :pattern ((bseq.of a o #x0000000000000000)))))
(assert (forall ((o (_ BitVec 64)) (n (_ BitVec 64)))
  (! (= (bseq.of ((as const (Array (_ BitVec 64) (_ BitVec 8))) #x00) o n) (seqzeros n)) :pattern ((bseq.of ((as const (Array (_ BitVec 64) (_ BitVec 8))) #x00) o n)))))
(assert (forall ((x BSeq)) (! (= (seqcat x seqempty) x) :pattern ((seqcat x seqempty)))))
(assert (forall ((x BSeq)) (! (= (seqcat seqempty x) x) :pattern ((seqcat seqempty x)))))

;; strings.Join as an uninterpreted function of (backing array, offset, length, separator)
(declare-fun strjoin ((Array (_ BitVec 64) Str) (_ BitVec 64) (_ BitVec 64) Str) Str)

;; []rune(s) and unicode/utf16.Encode as uninterpreted functions of the converted contents
;; (the bound is stated for lengths up to 2^48 only: n + n wraps for n >= 2^62, which made the unguarded axiom
;; unsatisfiable on its own - found by seeded change C08_c, now guarded by speccheck.py)
(declare-fun runes.arr (BSeq) (Array (_ BitVec 64) (_ BitVec 32)))

(declare-fun runes.len (BSeq) (_ BitVec 64))
(assert (forall ((s BSeq)) (! (and (bvsle #x0000000000000000 (runes.len s)) (bvsle (runes.len s) (bseq.len s))) :pattern ((runes.len s)))))

(declare-fun utf16.arr ((Array (_ BitVec 64) (_ BitVec 32)) (_ BitVec 64) (_ BitVec 64)) (Array (_ BitVec 64) (_ BitVec 16)))

(declare-fun utf16.len ((Array (_ BitVec 64) (_ BitVec 32)) (_ BitVec 64) (_ BitVec 64)) (_ BitVec 64))
(assert (forall ((a (Array (_ BitVec 64) (_ BitVec 32))) (o (_ BitVec 64)) (n (_ BitVec 64)))
  (! (=> (and (bvsle #x0000000000000000 n) (bvsle n #x0001000000000000)) (and (bvsle #x0000000000000000 (utf16.len a o n)) (bvsle (utf16.len a o n) (bvadd n n)))) :pattern ((utf16.len a o n)))))

;; mstypes.FileTime.Time as an uninterpreted function of the low and high words (C19: attributes reported faithfully)
(declare-fun filetime ((_ BitVec 64) (_ BitVec 64)) (_ BitVec 128))
