;; Core sorts shared by specs and models.
;; Seq: byte strings as values (arguments of uninterpreted crypto / codec primitives).
(declare-sort Seq 0)

(declare-fun seq.of ((Array (_ BitVec 64) (_ BitVec 8)) (_ BitVec 64) (_ BitVec 64)) Seq)

(declare-fun seq.len (Seq) (_ BitVec 64))

(declare-fun seq.at (Seq (_ BitVec 64)) (_ BitVec 8))

;; hash objects: digest size of the hash object at a reference, and of a constructor function value
(declare-fun hsize (Int) (_ BitVec 64))

;; digest sizes of the hash constructors (FIPS 180-4, RFC 1321, RFC 1320)
(define-fun hashsize ((f Int)) (_ BitVec 64)
  (ite (= f fid.crypto.sha1.New) #x0000000000000014
  (ite (= f fid.crypto.sha256.New) #x0000000000000020
  (ite (= f fid.crypto.sha512.New384) #x0000000000000030
  (ite (= f fid.crypto.md5.New) #x0000000000000010
  (ite (= f fid.golang.org.x.crypto.md4.New) #x0000000000000010
  #x0000000000000000))))))

;; substring relation shared by the models of strings.Contains / Split / SplitN / Index
(declare-fun str_contains (Str Str) Bool)
