;; Core sorts shared by specs and models.
;; BSeq: byte strings as values (arguments of uninterpreted crypto / codec primitives).
(declare-sort BSeq 0)

(declare-fun bseq.of ((Array (_ BitVec 64) (_ BitVec 8)) (_ BitVec 64) (_ BitVec 64)) BSeq)

(declare-fun bseq.len (BSeq) (_ BitVec 64))

(declare-fun bseq.at (BSeq (_ BitVec 64)) (_ BitVec 8))

;; hash objects: digest size of the hash object at a reference, and of a constructor function value
(declare-fun hsize (Int) (_ BitVec 64))

;; digest sizes of the hash constructors (FIPS 180-4, RFC 1321, RFC 1320)
(define-fun hashsize ((f Int)) (_ BitVec 64)
  (ite (= f fid.crypto.sha1.New) #x0000000000000014
  (ite (= f fid.crypto.sha256.New) #x0000000000000020
  (ite (= f fid.crypto.sha512.New384) #x0000000000000030
  (ite (= f fid.crypto.md5.New) #x0000000000000010
  (ite (= f fid.golang.org.x.crypto.md4.New) #x0000000000000010
  #x0000000000000000))))))

;; substring relation shared by the models of strings.Contains / Split / SplitN / Index
(declare-fun str_contains (Str Str) Bool)

;; sequences built from memory: length and elements (extensional reading of BSeq)
(assert (forall ((a (Array (_ BitVec 64) (_ BitVec 8))) (o (_ BitVec 64)) (n (_ BitVec 64)))
  (! (=> (bvsge n #x0000000000000000) (= (bseq.len (bseq.of a o n)) n)) :pattern ((bseq.of a o n)))))

(assert (forall ((a (Array (_ BitVec 64) (_ BitVec 8))) (o (_ BitVec 64)) (n (_ BitVec 64)) (i (_ BitVec 64)))
  (! (=> (and (bvsle #x0000000000000000 i) (bvslt i n)) (= (bseq.at (bseq.of a o n) i) (select a (bvadd o i))))
     :pattern ((bseq.at (bseq.of a o n) i)))))

(define-fun seqlen ((s BSeq)) (_ BitVec 64) (bseq.len s))

(define-fun seqat ((s BSeq) (i (_ BitVec 64))) (_ BitVec 8) (bseq.at s i))
