#!/bin/bash
# builds the verifier from files on disk only (offline)
set -e
cd "$(dirname "$0")"
export GOFLAGS=-mod=mod GOPROXY=off GOSUMDB=off GOTOOLCHAIN=local
mkdir -p bin evidence replay
(cd gowp && go build -o ../bin/gowp .)
echo "gowp built"
