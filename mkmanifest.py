#!/usr/bin/env python3
# regenerates MANIFEST.json from the table below (keeps it valid at all times)
import json, subprocess
props=[json.loads(l) for l in open('/verif/properties.jsonl')]
ids=[p['id'] for p in props]
claimed = {

 "C04": dict(
   technique="contract-based deductive verification: zero-annotation safety sweep (bounds, nil, div0, make size, type assertion, termination variants, allocation bounds) generated from go/ssa by gowp and discharged by z3/cvc5, plus helper preconditions proved at call sites",
   category="proof",
   text="Every implicit safety obligation of every function reachable from the externally reachable decoders/verifiers is generated from the current source and must be discharged by an SMT solver for all inputs (64-bit machine integers, arbitrary decoded values). Open obligations are only those listed as genuine known findings (ccache parser, des3 empty secret); while they are open the evidence reports level 'other', not a proof.",
   note="Trusted: models of stdlib/dependency functions (asn1, ndr/mstypes readers, strings, net, crypto primitives) listed in evidence.trusted_base; pointers loaded from memory non-nil unless declared nullable; len<=2^48; functions outside the subset (channels) listed; assume_obligation entries listed.",
   design="4/C04"),
}
claimed["C14"]=dict(
   technique="contract-based deductive verification: functional contracts on the real keytab lookup and readers (pre/postconditions, loop invariants with quantifiers) discharged by z3/cvc5 via gowp",
   category="proof",
   text="GetEncryptionKey is proved, for every keytab and query, to return only an entry matching realm, all components, etype and kvno (any when 0), never one with a strictly newer matching sibling, and to fail when nothing matches. The readers are proved to decode exactly the bytes at the cursor in the file's byte order; Unmarshal is proved memory-safe and terminating. The whole-file round trip is not yet under contract (listed as not decided).",
   note="Trusted: bytes.Buffer/binary.Read models, isNativeEndianLittle (unsafe), 0<=kvno<2^32 precondition.",
   design="4/C14")
claimed["C17"]=dict(
   technique="contract-based deductive verification: RFC 4121 byte layouts and acceptance conditions as postconditions on the real Marshal/Unmarshal/checksum/Verify functions, checksum as an uninterpreted RFC function shared with the etype interface contract; discharged by z3/cvc5 via gowp",
   category="proof",
   text="For every payload, flags, sequence number, key and usage: Marshal == RFC 4121 4.2.6 layout, Unmarshal accepts exactly well-formed tokens of the expected direction and returns their fields, the checksum input is {payload | header with EC=RRC=0}, Verify succeeds only if the token checksum equals the checksum of the presented fields.",
   note="Trusted: et_cksum is uninterpreted (C07 relates it to the HMAC composition); MAC assumption for 'every bit matters'; binary.BigEndian and hmac.Equal models.",
   design="4/C17")
claimed["C07"]=dict(
   technique="contract-based deductive verification: the RFC checksum compositions as spec functions over uninterpreted HMAC/hash primitives; postconditions on the real GetChecksumHash/VerifyChecksum/Checksum functions and the etype interface contract, byte-sequence abstraction with engine-generated sequence facts; discharged by z3/cvc5 via gowp",
   category="proof",
   text="For every key, usage and data the six checksum implementations return exactly the RFC-defined value (simplified-profile HMAC with Kc = DK(key, usage|0x99), truncated; RFC 4757 HMAC-MD5 with the Microsoft usage mapping), verification returns true only for that exact value, and checksum type ids select the IANA-assigned family.",
   note="Trusted: HMAC/hash uninterpreted; hash.Hash / hmac.New ghost-content models; DK taken at the level of the etype DeriveKey contract (C08 relates it further); MAC assumption for the negative clauses.",
   design="4/C07")
claimed["C01"]=dict(
   technique="contract-based deductive verification: RFC 4120 3.2.3 acceptance conditions as postconditions on the real VerifyAPREQ / APReq.Verify / Ticket.DecryptEncPart / Ticket.Valid chain (callers checked against callee contracts, decryption as an uninterpreted etype function, both clock readings as ghost values); discharged by z3/cvc5 via gowp",
   category="proof",
   text="For every AP-REQ, keytab and settings: success implies a keytab entry matching principal (or override)/realm/kvno/etype decrypts the ticket, both clock readings lie inside the skew-extended windows, the invalid flag is clear, address requirements hold, the authenticator decrypts under the ticket session key with the right usage, cname and crealm match, and the identity returned is the ticket's cname/crealm/endtime. Refusals carry an error and each RFC error code appears only when its condition holds. Replay and PAC clauses are decided under C02/C19, not here.",
   note="Trusted: uninterpreted et_dec_ok/et_dec_pt (trusted_ensures on the six DecryptMessage implementations), trusted frames of the ASN.1 decoder, replay cache, GetPACType and SetADCredentials; time.Now unconstrained.",
   design="4/C01")
claimed["C09"]=dict(
   technique="contract-based deductive verification: RFC 4120 3.1.5 / 3.3.4 reply checks as postconditions on the real ASRep.Verify / TGSRep.Verify / DecryptEncPart and on the exchanges that call them (callers against callee contracts, recursion with a variant); discharged by z3/cvc5 via gowp",
   category="proof",
   text="For every reply, request, credentials and configuration: an AS or TGS exchange returns success only if the reply's cname, realm, nonce, (AS) sname and srealm, addresses and KDC time agree with the request that was sent and the encrypted part decrypts with key usage 3 under the client's long-term key (keytab entry matching cname/crealm/kvno/etype, or the password-derived key) or usage 8 under the TGT session key; referral recursion is bounded by a variant. What the code does not check (TGS sname) is listed as not decided, as is the error-code text of KRB-ERROR replies.",
   note="Trusted: uninterpreted et_dec_ok, trusted frames of the ASN.1 decoder / setPAData / addSession, arbitrary network replies.",
   design="4/C09")
claimed["C02"]=dict(
   technique="contract-based deductive verification with a lock-invariant rule: the replay cache's maps are declared guarded by Cache.mux, are havocked at every acquisition up to a declared lock invariant that is proved at every release, and IsReplay/AddEntry/ClearOldEntries carry postconditions relating the state at the acquisition (atlock) to the state at return; lockset obligations on every guarded access; discharged by z3/cvc5 via gowp",
   category="proof",
   text="For every cache content and every interleaving admitted by the lock-invariant model, IsReplay is proved to be an atomic test-and-set on the set of recorded presentations (true exactly if recorded when the lock was taken; records it; forgets and adds nothing else), AddEntry and ClearOldEntries are proved against the same view, every guarded map access holds the lock, and VerifyAPREQ accepts only after IsReplay answered false. Eviction timing is not yet under contract (listed as not decided).",
   note="Trusted: the lock-invariant abstraction of concurrency (state guarded by the lock arbitrary at each acquisition), map keys compared as values (time.Time by instant), strings.Join uninterpreted, trusted frame for writes through map values.",
   design="4/C02")
claimed["C03"]=dict(
   technique="contract-based deductive verification: ghost record of the AP-REQ decision (set by the contract of service.VerifyAPREQ) carried through postconditions of every SPNEGO verification layer, preconditions on the wrapped http.Handler and the identity attached to the request, ghost record of the HTTP response; discharged by z3/cvc5 via gowp",
   category="proof",
   text="For every token and request: no verification API (KRB5Token / NegTokenInit / NegTokenResp / SPNEGOToken.Verify, AcceptSecContext) reports success or status COMPLETE unless service.VerifyAPREQ accepted the contained AP-REQ, and the context returned carries exactly the accepted credentials; the HTTP wrapper invokes the inner handler only then (or for an established session) with that identity and answers 401 + WWW-Authenticate (or 500 on session-store failure) otherwise.",
   note="Trusted: context.WithValue/Value model, ghost contracts for net/http (Error, Header.Set, Handler.ServeHTTP), external session store.",
   design="4/C03")
claimed["C08"]=dict(
   technique="contract-based deductive verification: the RFC string-to-key and key-derivation compositions as spec functions over uninterpreted PBKDF2/HMAC/hash/n-fold primitives, postconditions on the real StringToKey / KDF / GetKeyFromPassword / GenerateEncryptionKey functions with loop invariants for the PA-DATA precedence; discharged by z3/cvc5 via gowp; n-fold itself by a bounded executable stand-in (labelled bounded, not counted as proved)",
   category="proof",
   text="For every password, salt, parameter string and PA-DATA sequence the six string-to-key functions equal the RFC 3961/3962/8009/4757 compositions, the RFC 8009 KDF and derive-key functions equal their definitions, GetKeyFromPassword applies the RFC 4120 5.2.7.5 precedence of PA-ETYPE-INFO2 independent of element order, and generated keys have the etype's number and protocol key length. The wrong generated key length for etype 20 is an open known finding, so the evidence level is 'other' until it is repaired. n-fold is covered by a bounded comparison with an independent implementation only.",
   note="Trusted: uninterpreted PBKDF2/HMAC/hash/hex/UTF-16/n-fold, trusted contracts on Nfold, DES3RandomToKey content and the DR loop, ASN.1 decoders of the PA-DATA.",
   design="4/C08")
claimed["C11"]=dict(
   technique="contract-based deductive verification with a lock-invariant rule: the client's shared maps and session fields are declared guarded by their mutex, havocked at each acquisition, and every access generates a lockset obligation; atlock-relative postconditions for the atomic (ticket, key) reads; quantified set-level permutation contract with loop invariants for randServOrder; discharged by z3/cvc5 via gowp",
   category="proof",
   text="In the lock-invariant model every access to the ticket cache, the session table and a session's mutable fields is proved to hold the right mutex, (ticket, session key) pairs are proved to be read in one critical section, randServOrder is proved to return exactly the configured servers under keys 1..n without touching the configuration. Channel-based code, unguarded state and cross-mutex deadlocks are listed as not decided.",
   note="Trusted: the lock-invariant abstraction of concurrency; unpublished-object initialisation; channels outside the subset; math/rand.Intn returns 0 <= r < n.",
   design="4/C11")
claimed["C13"]=dict(
   technique="contract-based deductive verification of the flag operations (bit numbering as postconditions, quantified 'only this flag changes'), plus an exact table decision over the current source: every asn1 struct tag and field type of the 44 structs handed to the ASN.1 codec against RFC field tables; bounded executable stand-ins (labelled bounded) for the DER length helpers and the encode/decode round trips",
   category="proof",
   text="Proved for every bit string and flag number: IsFlagSet / SetFlag / UnsetFlag implement the RFC 4120 5.2.8 numbering and change one flag only. Decided for the current source: each codec struct field has the RFC context tag, EXPLICIT tagging, OPTIONAL-ness, string/time type and a wide-enough integer type (one obligation per field). The round-trip and length-octet clauses are covered only by bounded stand-ins (exhaustive lengths to 2^24; random values per message type), which are reported separately and never counted as proved.",
   note="Trusted: the reflection-driven ASN.1 codec, the manual transcription of the RFC tables. Bounded: MarshalLengthBytes / GetLengthFromASN, message round trips.",
   design="4/C13")
claimed["C19"]=dict(
   technique="contract-based deductive verification: [MS-PAC] signature-buffer layout and zeroing as quantified postconditions on the real SignatureData.Unmarshal (byte-exact reader model), acceptance conditions of PACType.verify / ProcessPACInfoBuffers / Ticket.GetPACType as postconditions with the keyed checksum as the uninterpreted RFC function shared with C07; discharged by z3/cvc5 via gowp",
   category="proof",
   text="For every PAC, key and keytab: PAC processing succeeds only with the mandatory buffers and a server signature equal to the keyed checksum of its declared type (usage 17) over the to-be-signed copy, under a keytab key matching the ticket; the signature buffer decoder zeroes exactly the signature octets. Faithful reporting of the account attributes (NDR decoding) is not under contract and listed as not decided.",
   note="Trusted: et_cksum uninterpreted + MAC assumption, mstypes.Reader model, NDR buffer decoders, trusted frame of ProcessPACInfoBuffers.",
   design="4/C19")
claimed["C12"]=dict(
   technique="contract-based deductive verification: the network as arbitrary trusted stdlib contracts with ghost counters/records (connection attempts, transport uses, last error per transport); loop invariants on the KDC iteration, case-complete postcondition of sendToKDC over the udp_preference_limit branches; discharged by z3/cvc5 via gowp",
   category="proof",
   text="For every configuration, request and network behaviour: each transport tries every configured KDC before giving up and returns the first reply, TCP framing reads complete header and body, sendToKDC follows the udp_preference_limit order, surfaces a KRB-ERROR with its code and falls back after a KRB-ERROR only for response-too-big. Timing (deadlines) and the KDC's own behaviour are outside the contracts.",
   note="Trusted: stdlib network contracts (arbitrary failures, short TCP reads), ASN.1 decoder in checkForKRBError.",
   design="4/C12")
claimed["C05"]=dict(
   technique="contract-based deductive verification: the RFC message-encryption compositions as spec functions over uninterpreted cipher modes / HMAC with inverse laws; exact-function postconditions on the real EncryptMessage / DecryptMessage / EncryptData / DecryptData of the four families and the six etype methods (checked against the etype interface contract), a round-trip lemma proved from the specification by a contract on an empty verif-tagged lemma function, and a vacuity canary; discharged by z3/cvc5 via gowp",
   category="proof",
   text="For all six etypes and every key, usage and message the library's encryption is exactly the RFC 3961/3962/8009/4757 composition over the confounder drawn from crypto/rand, its decryption returns the decrypted body without confounder, and decrypting any RFC encryption yields the message (lemma from the specification), so library and an RFC implementation interoperate in both directions (des3 up to zero padding).",
   note="Trusted: uninterpreted AES-CTS / 3DES-CBC / RC4 / HMAC with inverse laws, dependency contracts (aescts, crypto/cipher, rc4, crypto/rand), sequence laws; vacuity canary on every run.",
   design="4/C05")
claimed["C06"]=dict(
   technique="contract-based deductive verification: acceptance condition of DecryptMessage / VerifyIntegrity of every family as postconditions (carried MAC equals the RFC MAC over the decrypted body under the usage-derived keys), error paths return no plaintext; discharged by z3/cvc5 via gowp",
   category="proof",
   text="For all six etypes: decryption succeeds only if the presented bytes carry the RFC MAC for what they decrypt to under the presented key and usage, and returns no plaintext otherwise; that modified ciphertexts, other keys or usages fail then rests on the MAC assumption.",
   note="Trusted: HMAC uninterpreted + MAC assumption, cipher modes uninterpreted, key derivation from C07/C08.",
   design="4/C06")
claimed["C20"]=dict(
   technique="contract-style label check decided over go/ssa and go/types: a table of secret-bearing fields (sources) and of formatting / logging / error-text / JSON functions (sinks); one obligation per operand handed to a sink anywhere in the library: its static type must not reach a secret field the way the sink prints it; plus a bounded stand-in for wire re-encodings",
   category="other",
   text="Exact type-level decision on the current source: no operand of a fmt / log / krberror / Log call and no value handed to encoding/json can reach key material or a password through its fields (fmt: all fields, json: exported and not json:\"-\"). It is flow-insensitive: secrets copied into plain byte slices or strings lose their label, hex/base64 encodings and dependency output are not covered (listed as not decided). Not a solver-discharged proof, hence category 'other'.",
   note="Trusted: the source and sink tables in gowp/props.go. Bounded: re-encoded tickets never contain the decrypted session key.",
   design="4/C20")
claimed["C10"]=dict(
   technique="contract-based deductive verification of the clauses a per-function contract can express: validity window of cache hits (clock readings as ghost values, entry times as ghost records of the locked read), field-exact postcondition of session.update, recursion variants for referral chains (also through inlined helpers); discharged by z3/cvc5 via gowp",
   category="proof",
   text="Proved: cache hits without renewal lie inside the entry's validity at the clock readings taken, a renewed TGT session records exactly the KDC reply's values, referral chains are bounded. The protocol-level clauses of the property (what a conformant KDC returns for a login or an SPN, well-formedness of the requests, auto-renewal over time) are not expressible as per-function contracts and are listed as not decided; reply matching is C09.",
   note="Partial claim: see not_decided in the evidence.",
   design="4/C10")
claimed["C15"]=dict(
   technique="contract-based deductive verification: exact decode-and-advance contracts on the real ccache readers (byte order, counted strings, sign-extended timestamps) and quantified lookup / filtering contracts with loop invariants on CCache.Contains / GetEntry / GetEntries; discharged by z3/cvc5 via gowp",
   category="proof",
   text="Proved for every buffer and cursor: each ccache reader returns exactly the value encoded at the cursor and advances it correctly; entry lookup and configuration-entry filtering return credentials of the cache by full principal-name equality, in order, without writing to the cache. The file-level composition for format versions 1 to 4 and client.NewFromCCache are listed as not decided (partial claim).",
   note="Trusted: bytes.Buffer/binary.Read models, isNativeEndianLittle. The missing bounds checks of the parser on malformed files are a known finding under C04.",
   design="4/C15")
claimed["C16"]=dict(
   technique="contract-based deductive verification of the clauses expressible without a model of text: functional contract of appendUntilFinal (final-value marker), set-level permutation contract of the KDC selection, safety and termination of the krb5.conf parsers, plus a structural decision over go/ssa that each multi-valued realm relation has its own final flag",
   category="proof",
   text="Proved / decided: final-value semantics of one relation, one flag per relation, KDC and kpasswd look-up returns each configured server once (set level) and leaves the configuration untouched, parsers are safe and terminate. The MIT-semantics clauses about the text of krb5.conf (values of booleans, durations, enctypes, realm resolution specificity, rejection of invalid files) are outside what the string model can express and are listed as not decided (partial claim).",
   note="Trusted: stdlib string contracts (lengths only), rand.Intn range.",
   design="4/C16")
NA={"C18":"The property is about sequences of HTTP exchanges driven through net/http (redirect-policy callbacks, request-body readers that must be replayed, the recursion of Client.Do over whatever the server answers). The contract language and models of this verifier have no model of http.Client, of io.Reader streams or of server-response histories, and termination depends on the server's behaviour rather than on a variant over the function's arguments; per the brief no other technique (simulation, fuzzing) is substituted. DESIGN.md section 0.6."}
hooks=subprocess.run("git -C /repo log --format='%H %s' | grep ' verif:' | awk '{print $1}'",shell=True,capture_output=True,text=True).stdout.split()
m={"version":1,
 "setup_cmd":"./setup.sh",
 "hooks":{"guard":"verif","enable":"gowp loads /repo/v8 with -tags verif so that the comment-only contract files v8/<pkg>/zz_contracts_verif.go are parsed; no executable code is guarded","baseline_off_cmd":"cd /repo/v8 && GOFLAGS=-mod=mod GOPROXY=off go test -vet=off -count=1 ./...","source_commits":hooks,"add_only":True},
 "engines":[{"name":"gowp","path":"gowp/","serves_properties":sorted(claimed),"kind_free_text":"home-built verification-condition generator for Go (go/packages + go/ssa, merged symbolic execution, contracts in //@ comment files, loop invariants with Houdini inference, frames) with z3-new 5.1.0 / z3 4.8.12 / cvc5 1.0 as back ends; counterexamples replayed on the real code with go test -overlay"}],
 "checks":[],
 "notes":"See DESIGN.md section 0 (as built). known_findings.json lists genuine defects (fixed: commits in /repo, known: still open). ./check runs speccheck.py once per version of spec/ (every quantified axiom satisfiable on its own) and exits 2 with SPEC-INCONSISTENT otherwise. selftest/run.sh is the must-fail corpus (20 property-breaking diffs), selftest/run_harmless.sh the must-pass corpus (7 behaviour-preserving diffs); seeded/ holds the confirmed seeded changes with SUMMARY.json; runall.sh runs every check.",
 "not_applicable":[]}
addenda={
 "C02":" Also decided: the clean-up goroutine evicts with the skew GetReplayCache was given (value-flow check over SSA, obligation kind table).",
 "C05":" A bounded encrypt/decrypt round trip on the real code (all six etypes, lengths 0..80, labelled bounded) stands in for code-level completeness of decryption.",
 "C10":" ensureValidSession leaves a session unrefreshed only while more than a sixth of its lifetime remains at the clock reading taken under the session lock.",
 "C11":" session.destroy and sessions.update are verified with channel sends as no-ops on the modelled state; blocking sends go only to channel fields whose creation sites all have capacity >= 1 (structural obligation).",
 "C12":" Every connection gets a deadline after the latest clock reading (dialling moves the ghost clock); sendTCP returns a reply only if both io.ReadFull calls filled their buffers.",
 "C13":" The bounded round trip includes a real Decrypt for each of the six etypes (a decrypted ticket re-encodes to the bytes decoded).",
 "C14":" principal.marshal is proved to write the component count the way parsePrincipal reads it back (version 1 counts the realm; defect fixed in 54a8b3c); a bounded keytab round trip (labelled bounded) covers the whole file.",
 "C15":" A bounded stand-in (independent ccache writer, versions 1-4) covers whole files and client.NewFromCCache; it is labelled bounded and not counted as proved.",
 "C16":" ResolveRealm is covered by a bounded exhaustive stand-in against an independent most-specific-match oracle (labelled bounded).",
 "C19":" GetGroupMembershipSIDs returns every extra SID of the validation info; the times, ids and names VerifyAPREQ and the Basic authenticator hand to the credentials are field by field those of the PAC just verified; every PAC failure is reported as a failed PAC.",
}
for k,v in addenda.items():
    if k in claimed and v not in claimed[k]["text"]: claimed[k]["text"]+=v
for pid in ids:
    if pid in claimed:
        c=claimed[pid]
        try:
            lvl=json.load(open(f'/verif/evidence/{pid}.json'))['level']
            if lvl!=c["category"]:
                c["category"]=lvl
                c["text"]+=" NOTE: some obligations are open known findings (see known_findings.json), so the evidence level is reported as 'other', not as a completed proof."
        except Exception: pass
        m["checks"].append({"property_id":pid,"quick_cmd":f"./check {pid} quick","thorough_cmd":f"./check {pid} thorough","evidence_file":f"evidence/{pid}.json","replay_cmd_template":f"./check {pid} quick --replay {{path}}","engine":"gowp",
          "level_claimed":{"category":c["category"],"text":c["text"],"design_ref":c["design"]},"level_note":c["note"],"technique":c["technique"]})
    else:
        m["not_applicable"].append({"property_id":pid,"reason":NA.get(pid,"no contract within reach of the verifier expresses this property (see DESIGN.md section 0.6)")})
json.dump(m,open('/verif/MANIFEST.json','w'),indent=1)
print("claimed:",sorted(claimed))
