#!/bin/bash
# seedall.sh [seed ...]: for every seed in seeded_incoming (or the named ones): confirm it on the current /repo HEAD
# (scratch worktree), then run the check of its property (or the one named in seeded_incoming/<seed>/check_with)
# against it. Results: work/seedall.tsv  (seed, confirm line, check exit + violations); rows of named seeds are replaced.
cd /verif
out=work/seedall.tsv
if [ $# -eq 0 ]; then : > $out; set -- $(ls /verif/seeded_incoming); full=1; fi
for s in "$@"; do
  d=/verif/seeded_incoming/$s; pid=${s%%_*}
  chk=$pid; [ -f $d/check_with ] && chk=$(cat $d/check_with)
  conf=$(./seedconfirm.sh $d 2>&1 | tail -1)
  if echo "$conf" | grep -q "demo_without_patch_exit=0 demo_with_patch_exit=1 suite_with_patch_exit=0"; then
    res=""
    for c in $chk; do
      if jq -e --arg c "$c" '.checks[] | select(.property_id == $c)' MANIFEST.json >/dev/null 2>&1; then
        res="$res$(./seedrun.sh $d $c quick 2>&1 | grep -E "^seed=|VIOLATION" | tr '\n' ' ' | cut -c1-600) "
      else
        res="${res}property $c not claimed "
      fi
    done
  else
    res="not confirmed on current HEAD"
  fi
  grep -v -P "^$s\t" $out | grep -v "^done" > $out.tmp; mv $out.tmp $out
  printf "%s\t%s\t%s\n" "$s" "$conf" "$res" >> $out
done
sort -o $out $out
echo done >> $out
