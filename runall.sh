#!/bin/bash
# runall.sh [tier]: every claimed check, sequentially, on the current /repo tree; summary lines in work/runall.log
cd /verif
tier=${1:-quick}
: > work/runall.log
for id in $(jq -r '.checks[].property_id' MANIFEST.json); do
  ./check $id $tier > work/run_$id.log 2>&1; rc=$?
  echo "$id exit=$rc $(tail -1 work/run_$id.log)" >> work/runall.log
  grep -E "^VIOLATION|^KNOWN-FINDING" work/run_$id.log | cut -c1-260 >> work/runall.log
done
echo done >> work/runall.log
