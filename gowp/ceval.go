package main

// Evaluation of contract expressions to SMT terms, sharing the executor's value representation.

import (
	"fmt"
	"go/constant"
	"go/types"
	"math/big"
	"strconv"
	"strings"

	"golang.org/x/tools/go/ssa"
)

type CV struct {
	V       Val
	T       types.Type // nil for pure SMT values (spec function results)
	Untyped *big.Int   // untyped integer constant
	IsNil   bool
	Pkg     *types.Package // package qualifier
	TypeRef types.Type     // a type expression (for conversions)
}

type CEnv struct {
	e      *Exec
	vars   map[string]CV
	st     *State
	old    *State
	pkg    *types.Package
	lookup func(name string) (CV, bool) // extra resolver (loop locals)
	qdepth int
	nows   []*Term
	calleeNows *[]*Term
	atlock *State // state at the callee's lock acquisition (call sites); nil: the current state's own snapshot
}

type cevalErr struct{ msg string }

func cfail(format string, a ...interface{}) { panic(cevalErr{fmt.Sprintf(format, a...)}) }

func (env *CEnv) child() *CEnv {
	n := *env
	n.vars = map[string]CV{}
	for k, v := range env.vars {
		n.vars[k] = v
	}
	return &n
}

// Eval evaluates a boolean contract clause; errors are returned (they make the clause an undischarged obligation).
func (env *CEnv) EvalBool(x *CExpr) (t *Term, err error) {
	defer func() {
		if r := recover(); r != nil {
			switch ce := r.(type) {
			case cevalErr:
				err = fmt.Errorf("%s", ce.msg)
			case unsupportedErr:
				err = fmt.Errorf("%s", ce.msg)
			default:
				panic(r)
			}
		}
	}()
	cv := env.eval(x)
	tt := env.asTerm(cv)
	if tt.Sort != SBool {
		cfail("clause is not boolean: %s", x)
	}
	return tt, nil
}

func (env *CEnv) EvalTerm(x *CExpr) (t *Term, err error) {
	defer func() {
		if r := recover(); r != nil {
			switch ce := r.(type) {
			case cevalErr:
				err = fmt.Errorf("%s", ce.msg)
			case unsupportedErr:
				err = fmt.Errorf("%s", ce.msg)
			default:
				panic(r)
			}
		}
	}()
	return env.asTerm(env.eval(x)), nil
}

// withState runs f with the executor state temporarily replaced (heap reads go to st), silently.
func (env *CEnv) withState(st *State, f func()) {
	e := env.e
	saveSt, saveSilent := e.st, e.silent
	e.st = st.clone()
	e.silent = true
	if env.qdepth > 0 {
		e.vc.frozen++
	}
	defer func() {
		if env.qdepth > 0 {
			e.vc.frozen--
		}
		e.st, e.silent = saveSt, saveSilent
	}()
	f()
}

func (env *CEnv) asTerm(cv CV) *Term {
	if cv.Untyped != nil {
		return BVLit(cv.Untyped, 64)
	}
	if cv.IsNil {
		return IntLit(0)
	}
	switch v := cv.V.(type) {
	case *Term:
		return v
	case *Ptr:
		if (v.Kind == PHeap || v.Kind == PArr) && len(v.Path) == 0 {
			return v.Ref
		}
		cfail("interior pointer used as a value in a contract")
	case *FnVal:
		return IntLit(fnID(v.Fn))
	}
	cfail("expression has no term value (%T)", cv.V)
	return nil
}

func (env *CEnv) adapt(cv CV, sort string) *Term {
	if cv.Untyped != nil {
		if sort == SInt {
			return &Term{Op: "lit", Sort: SInt, Lit: cv.Untyped}
		}
		if w := bvWidth(sort); w > 0 {
			return BVLit(cv.Untyped, w)
		}
		cfail("integer constant used where %s is expected", sort)
	}
	if cv.IsNil {
		switch sort {
		case SInt:
			return IntLit(0)
		case SSlice:
			return NilSlice
		case SIface:
			return NilIface
		}
		cfail("nil used where %s is expected", sort)
	}
	return env.asTerm(cv)
}

func (env *CEnv) eval(x *CExpr) CV {
	switch x.Kind {
	case "int":
		v, ok := new(big.Int).SetString(x.Name, 0)
		if !ok {
			cfail("bad integer %s", x.Name)
		}
		return CV{Untyped: v}
	case "char":
		s, err := strconv.Unquote(x.Name)
		if err != nil || len(s) == 0 {
			cfail("bad char %s", x.Name)
		}
		return CV{Untyped: big.NewInt(int64([]rune(s)[0]))}
	case "str":
		s, err := strconv.Unquote(x.Name)
		if err != nil {
			cfail("bad string %s", x.Name)
		}
		return CV{V: env.e.strLit(s), T: types.Typ[types.String]}
	case "ident":
		return env.ident(x.Name)
	case "old":
		if env.old == nil {
			cfail("old() not available here")
		}
		sub := *env
		sub.st = env.old
		return sub.eval(x.X)
	case "unary":
		return env.unary(x)
	case "binary":
		return env.binary(x)
	case "sel":
		return env.selector(x)
	case "index":
		return env.index(x)
	case "slice":
		return env.sliceExpr(x)
	case "call":
		return env.call(x)
	case "forall", "exists":
		return env.quant(x)
	}
	cfail("cannot evaluate %s", x)
	return CV{}
}

func (env *CEnv) ident(name string) CV {
	if v, ok := env.vars[name]; ok {
		return v
	}
	if name == "clock" {
		// the ghost clock: latest time.Now reading
		var out *Term
		env.e.clock0()
		env.withState(env.st, func() { out = env.e.heapGet("GH.clock", STime) })
		return CV{V: out, T: timeType(env.e.P)}
	}
	if gv := env.e.P.Ghosts[name]; gv != nil {
		var out *Term
		env.withState(env.st, func() { out = env.e.heapGet("GH.u."+name, gv.Sort) })
		return CV{V: out, T: gv.T}
	}
	switch name {
	case "true":
		return CV{V: True, T: types.Typ[types.Bool]}
	case "false":
		return CV{V: False, T: types.Typ[types.Bool]}
	case "nil":
		return CV{IsNil: true}
	case "int", "int8", "int16", "int32", "int64", "uint", "uint8", "uint16", "uint32", "uint64", "byte", "string", "bool", "uintptr", "rune":
		return CV{TypeRef: types.Universe.Lookup(name).Type()}
	case "Ref":
		return CV{TypeRef: types.Typ[types.UnsafePointer]}
	}
	if strings.HasPrefix(name, "now#") {
		k, _ := strconv.Atoi(name[4:])
		if env.calleeNows != nil {
			// clock readings of a callee, seen from the call site: fresh instants appended to the caller's
			// ghost clock sequence (so the caller's own contract can name them in execution order)
			for len(*env.calleeNows) < k {
				t, _ := modelNow(env.e, nil, nil, nil)
				*env.calleeNows = append(*env.calleeNows, t.(*Term))
			}
			return CV{V: (*env.calleeNows)[k-1], T: timeType(env.e.P)}
		}
		if k >= 1 && k <= len(env.e.root.nows) {
			return CV{V: env.e.root.nows[k-1], T: timeType(env.e.P)}
		}
		cfail("%s: the function has only %d time.Now() calls on this path", name, len(env.e.root.nows))
	}
	if env.lookup != nil {
		if v, ok := env.lookup(name); ok {
			return v
		}
	}
	if env.pkg != nil {
		if obj := env.pkg.Scope().Lookup(name); obj != nil {
			return env.object(obj)
		}
		for _, imp := range env.pkg.Imports() {
			if imp.Name() == name {
				return CV{Pkg: imp}
			}
		}
	}
	// any package of the program by name (specs may mention packages the function's package does not import)
	for _, pk := range env.e.P.SSA.AllPackages() {
		if pk.Pkg.Name() == name && strings.HasPrefix(pk.Pkg.Path(), strings.TrimSuffix(modPrefix, "/")) {
			return CV{Pkg: pk.Pkg}
		}
	}
	if fn := env.e.vc.specs.Fns[name]; fn != nil && len(fn.Args) == 0 {
		return CV{V: Sym(name, fn.Res)}
	}
	cfail("unknown identifier %q", name)
	return CV{}
}

func durationType(p *Program) types.Type {
	for _, pk := range p.SSA.AllPackages() {
		if pk.Pkg.Path() == "time" {
			return pk.Pkg.Scope().Lookup("Duration").Type()
		}
	}
	return types.Typ[types.Int64]
}

func timeType(p *Program) types.Type {
	for _, pk := range p.SSA.AllPackages() {
		if pk.Pkg.Path() == "time" {
			return pk.Pkg.Scope().Lookup("Time").Type()
		}
	}
	return nil
}

func (env *CEnv) object(obj types.Object) CV {
	switch o := obj.(type) {
	case *types.Const:
		t := o.Type()
		if b, ok := t.Underlying().(*types.Basic); ok && b.Info()&types.IsUntyped != 0 {
			if o.Val().Kind() == constant.Int {
				v, _ := new(big.Int).SetString(o.Val().ExactString(), 10)
				return CV{Untyped: v}
			}
			if o.Val().Kind() == constant.String {
				return CV{V: env.e.strLit(constant.StringVal(o.Val())), T: types.Typ[types.String]}
			}
			if o.Val().Kind() == constant.Bool {
				return CV{V: Bool(constant.BoolVal(o.Val())), T: types.Typ[types.Bool]}
			}
		}
		switch {
		case isInteger(t):
			v, _ := new(big.Int).SetString(o.Val().ExactString(), 10)
			return CV{V: BVLit(v, bvWidth(sortOf(t))), T: t}
		case isString(t):
			return CV{V: env.e.strLit(constant.StringVal(o.Val())), T: t}
		case isBool(t):
			return CV{V: Bool(constant.BoolVal(o.Val())), T: t}
		}
		cfail("constant %s of unsupported type", o.Name())
	case *types.Var:
		// package-level variable
		for _, pk := range env.e.P.SSA.AllPackages() {
			if pk.Pkg == o.Pkg() {
				if g, ok := pk.Members[o.Name()].(*ssa.Global); ok {
					var out CV
					env.withState(env.st, func() {
						p := env.e.val(g).(*Ptr)
						out = CV{V: env.e.load(p), T: o.Type()}
					})
					return out
				}
			}
		}
	case *types.TypeName:
		return CV{TypeRef: o.Type()}
	}
	cfail("cannot use %s in a contract", obj.Name())
	return CV{}
}

func (env *CEnv) derefIfPtr(cv CV) CV {
	if cv.T == nil {
		return cv
	}
	if pt, ok := types.Unalias(cv.T).Underlying().(*types.Pointer); ok {
		p, ok := cv.V.(*Ptr)
		if !ok {
			cfail("pointer value expected")
		}
		var out CV
		env.withState(env.st, func() {
			np := *p
			np.NonNil = true
			out = CV{V: env.e.load(&np), T: pt.Elem()}
		})
		return out
	}
	return cv
}

func dottedName(x *CExpr) (string, bool) {
	switch x.Kind {
	case "ident":
		return x.Name, true
	case "sel":
		if b, ok := dottedName(x.X); ok {
			return b + "." + x.Name, true
		}
	}
	return "", false
}

func (env *CEnv) selector(x *CExpr) CV {
	// engine identifiers of types and functions: tid.<type>, fid.<function>
	if dn, ok := dottedName(x); ok && (strings.HasPrefix(dn, "fid.") || strings.HasPrefix(dn, "tid.")) {
		if _, shadow := env.vars[dn[:3]]; !shadow {
			return CV{V: Sym(dn, SInt)}
		}
	}
	base := env.eval(x.X)
	if base.Pkg != nil {
		obj := base.Pkg.Scope().Lookup(x.Name)
		if obj == nil {
			cfail("%s.%s not found", base.Pkg.Name(), x.Name)
		}
		return env.object(obj)
	}
	if base.T == nil {
		cfail("selector .%s on a pure SMT value", x.Name)
	}
	// pointer: stay an l-value path (cheap, and usable by modifies)
	if pt, ok := types.Unalias(base.T).Underlying().(*types.Pointer); ok {
		if st, ok := types.Unalias(pt.Elem()).Underlying().(*types.Struct); ok {
			if idx, ft := fieldByName(st, x.Name); idx >= 0 {
				p := base.V.(*Ptr)
				np := *p
				np.NonNil = true
				np.Path = append(append([]PathEl(nil), p.Path...), PathEl{Field: idx, ContT: pt.Elem()})
				np.Typ = ft
				var out CV
				env.withState(env.st, func() { out = CV{V: env.e.load(&np), T: ft} })
				return out
			}
			// promoted field through embedded struct
			for i := 0; i < st.NumFields(); i++ {
				if st.Field(i).Embedded() {
					sub := &CExpr{Kind: "sel", X: &CExpr{Kind: "sel", X: x.X, Name: st.Field(i).Name()}, Name: x.Name}
					if es, ok := types.Unalias(st.Field(i).Type()).Underlying().(*types.Struct); ok {
						if j, _ := fieldByName(es, x.Name); j >= 0 {
							return env.eval(sub)
						}
					}
				}
			}
		}
		cfail("no field %s in %s", x.Name, base.T)
	}
	if st, ok := types.Unalias(base.T).Underlying().(*types.Struct); ok {
		idx, ft := fieldByName(st, x.Name)
		if idx < 0 {
			for i := 0; i < st.NumFields(); i++ {
				if st.Field(i).Embedded() {
					if es, ok := types.Unalias(st.Field(i).Type()).Underlying().(*types.Struct); ok {
						if j, _ := fieldByName(es, x.Name); j >= 0 {
							inner := CV{V: FieldSel(structInfo(base.T), env.asTerm(base), i), T: st.Field(i).Type()}
							env2 := env.child()
							env2.vars["__emb"] = inner
							return env2.eval(&CExpr{Kind: "sel", X: &CExpr{Kind: "ident", Name: "__emb"}, Name: x.Name})
						}
					}
				}
			}
			cfail("no field %s in %s", x.Name, base.T)
		}
		t := FieldSel(structInfo(base.T), env.asTerm(base), idx)
		var out CV
		env.withState(env.st, func() { out = CV{V: env.e.fromTerm(t, ft, false), T: ft} })
		return out
	}
	cfail("selector .%s on %s", x.Name, base.T)
	return CV{}
}

func fieldByName(st *types.Struct, name string) (int, types.Type) {
	for i := 0; i < st.NumFields(); i++ {
		if st.Field(i).Name() == name {
			return i, st.Field(i).Type()
		}
	}
	return -1, nil
}

func (env *CEnv) index(x *CExpr) CV {
	base := env.eval(x.X)
	if base.T == nil {
		// SMT array
		bt := env.asTerm(base)
		is, _, ok := arrayParts(bt.Sort)
		if !ok {
			cfail("indexing a non-array SMT value")
		}
		return CV{V: Select(bt, env.adapt(env.eval(x.Y), is))}
	}
	switch u := types.Unalias(base.T).Underlying().(type) {
	case *types.Slice:
		s := env.asTerm(base)
		i := env.adapt(env.eval(x.Y), BV(64))
		var out CV
		env.withState(env.st, func() {
			p := &Ptr{Kind: PElem, Ref: SlRef(s), Idx: BVAdd(SlOff(s), i), Base: u.Elem(), Typ: u.Elem(), NonNil: true}
			out = CV{V: env.e.load(p), T: u.Elem()}
		})
		return out
	case *types.Array:
		a := env.asTerm(base)
		i := env.adapt(env.eval(x.Y), BV(64))
		return CV{V: Select(a, i), T: u.Elem()}
	case *types.Basic:
		if isString(base.T) {
			i := env.adapt(env.eval(x.Y), BV(64))
			return CV{V: Select(StrArr(env.asTerm(base)), i), T: types.Typ[types.Byte]}
		}
	case *types.Map:
		mr := env.asTerm(base)
		k := env.adapt(env.eval(x.Y), sortOf(u.Key()))
		var out CV
		env.withState(env.st, func() {
			mp, mv := mapHeapNames(u)
			ps := ArraySort(SInt, ArraySort(sortOf(u.Key()), SBool))
			vs := ArraySort(SInt, ArraySort(sortOf(u.Key()), sortOf(u.Elem())))
			present := And(Neq(mr, IntLit(0)), Select(Select(env.e.heapGet(mp, ps), mr), k))
			val := Ite(present, Select(Select(env.e.heapGet(mv, vs), mr), k), zeroOf(u.Elem()))
			out = CV{V: env.e.fromTerm(val, u.Elem(), false), T: u.Elem()}
		})
		return out
	case *types.Pointer:
		if arr, ok := types.Unalias(u.Elem()).Underlying().(*types.Array); ok {
			p := base.V.(*Ptr)
			i := env.adapt(env.eval(x.Y), BV(64))
			var out CV
			env.withState(env.st, func() {
				if p.Kind == PArr {
					out = CV{V: env.e.load(&Ptr{Kind: PElem, Ref: p.Ref, Idx: i, Base: arr.Elem(), Typ: arr.Elem(), NonNil: true}), T: arr.Elem()}
				} else {
					np := *p
					np.NonNil = true
					np.Path = append(append([]PathEl(nil), p.Path...), PathEl{Idx: i, ContT: u.Elem()})
					np.Typ = arr.Elem()
					out = CV{V: env.e.load(&np), T: arr.Elem()}
				}
			})
			return out
		}
	}
	cfail("cannot index %s", base.T)
	return CV{}
}

func (env *CEnv) sliceExpr(x *CExpr) CV {
	base := env.eval(x.X)
	if base.T == nil {
		cfail("slicing a pure SMT value")
	}
	lo := bv64zero
	if x.Y != nil {
		lo = env.adapt(env.eval(x.Y), BV(64))
	}
	switch types.Unalias(base.T).Underlying().(type) {
	case *types.Slice:
		s := env.asTerm(base)
		hi := SlLen(s)
		if x.Z != nil {
			hi = env.adapt(env.eval(x.Z), BV(64))
		}
		return CV{V: MkSlice(SlRef(s), BVAdd(SlOff(s), lo), BVSub(hi, lo), BVSub(SlCap(s), lo)), T: base.T}
	}
	cfail("cannot slice %s in a contract", base.T)
	return CV{}
}

func (env *CEnv) unary(x *CExpr) CV {
	switch x.Op {
	case "!":
		return CV{V: Not(env.adapt(env.eval(x.X), SBool)), T: types.Typ[types.Bool]}
	case "-":
		v := env.eval(x.X)
		if v.Untyped != nil {
			return CV{Untyped: new(big.Int).Neg(v.Untyped)}
		}
		return CV{V: BVNeg(env.asTerm(v)), T: v.T}
	case "^":
		v := env.eval(x.X)
		return CV{V: BVNot(env.asTerm(v)), T: v.T}
	case "*":
		v := env.eval(x.X)
		return env.derefIfPtr(v)
	}
	cfail("unary %s", x.Op)
	return CV{}
}

func (env *CEnv) binary(x *CExpr) CV {
	boolT := types.Typ[types.Bool]
	switch x.Op {
	case "&&":
		return CV{V: And(env.adapt(env.eval(x.X), SBool), env.adapt(env.eval(x.Y), SBool)), T: boolT}
	case "||":
		return CV{V: Or(env.adapt(env.eval(x.X), SBool), env.adapt(env.eval(x.Y), SBool)), T: boolT}
	case "==>":
		return CV{V: Implies(env.adapt(env.eval(x.X), SBool), env.adapt(env.eval(x.Y), SBool)), T: boolT}
	case "<==>":
		return CV{V: Eq(env.adapt(env.eval(x.X), SBool), env.adapt(env.eval(x.Y), SBool)), T: boolT}
	}
	a, b := env.eval(x.X), env.eval(x.Y)
	// untyped folding
	if a.Untyped != nil && b.Untyped != nil {
		r := new(big.Int)
		switch x.Op {
		case "+":
			return CV{Untyped: r.Add(a.Untyped, b.Untyped)}
		case "-":
			return CV{Untyped: r.Sub(a.Untyped, b.Untyped)}
		case "*":
			return CV{Untyped: r.Mul(a.Untyped, b.Untyped)}
		case "/":
			return CV{Untyped: r.Quo(a.Untyped, b.Untyped)}
		case "<<":
			return CV{Untyped: r.Lsh(a.Untyped, uint(b.Untyped.Int64()))}
		case "==":
			return CV{V: Bool(a.Untyped.Cmp(b.Untyped) == 0), T: boolT}
		case "<":
			return CV{V: Bool(a.Untyped.Cmp(b.Untyped) < 0), T: boolT}
		case "<=":
			return CV{V: Bool(a.Untyped.Cmp(b.Untyped) <= 0), T: boolT}
		}
	}
	// nil comparisons
	if (a.IsNil || b.IsNil) && (x.Op == "==" || x.Op == "!=") {
		o := a
		if a.IsNil {
			o = b
		}
		var eq *Term
		if mp, ok := o.V.(*Ptr); ok && (mp.Kind == PMulti || len(mp.Path) > 0 || mp.Kind == PCell || mp.Kind == PGlobal) {
			// pointers that are not plain heap references: nil only through a nil heap alternative
			var alts []*Term
			if mp.Kind == PMulti {
				for _, a := range mp.Alts {
					if (a.P.Kind == PHeap || a.P.Kind == PArr) && len(a.P.Path) == 0 {
						alts = append(alts, And(a.G, Eq(a.P.Ref, IntLit(0))))
					}
				}
			}
			eq = Or(alts...)
			if x.Op == "!=" {
				eq = Not(eq)
			}
			return CV{V: eq, T: boolT}
		}
		ot := env.asTerm(o)
		switch ot.Sort {
		case SInt:
			eq = Eq(ot, IntLit(0))
		case SSlice:
			eq = Eq(SlRef(ot), IntLit(0))
		case SIface:
			eq = Eq(IfTag(ot), IntLit(0))
		default:
			cfail("nil compared with %s", ot.Sort)
		}
		if x.Op == "!=" {
			eq = Not(eq)
		}
		return CV{V: eq, T: boolT}
	}
	// determine common sort
	var sort string
	var T types.Type
	switch {
	case a.Untyped == nil && !a.IsNil:
		sort, T = env.asTerm(a).Sort, a.T
	case b.Untyped == nil && !b.IsNil:
		sort, T = env.asTerm(b).Sort, b.T
	default:
		sort = BV(64)
	}
	shift := x.Op == "<<" || x.Op == ">>"
	ta := env.adapt(a, sort)
	var tb *Term
	if shift {
		tb = env.adapt(b, sort)
		if tb.Sort != sort {
			tb = Resize(tb, bvWidth(sort), false)
		}
	} else {
		tb = env.adapt(b, sort)
	}
	if ta.Sort != tb.Sort {
		cfail("operands of %s have different sorts: %s : %s vs %s : %s (add a conversion)", x.Op, x.X, ta.Sort, x.Y, tb.Sort)
	}
	signed := true
	if T != nil && isInteger(T) {
		signed = isSigned(T)
	} else if T == nil && a.T != nil && isInteger(a.T) {
		signed = isSigned(a.T)
	}
	if sort == SInt {
		switch x.Op {
		case "==":
			return CV{V: Eq(ta, tb), T: boolT}
		case "!=":
			return CV{V: Neq(ta, tb), T: boolT}
		case "<":
			return CV{V: IntLt(ta, tb), T: boolT}
		case "<=":
			return CV{V: IntLe(ta, tb), T: boolT}
		case ">":
			return CV{V: IntLt(tb, ta), T: boolT}
		case ">=":
			return CV{V: IntLe(tb, ta), T: boolT}
		case "+":
			return CV{V: IntAdd(ta, tb)}
		case "-":
			return CV{V: App("-", SInt, ta, tb)}
		}
		cfail("operator %s on Int", x.Op)
	}
	if bvWidth(sort) == 0 {
		switch x.Op {
		case "==":
			if sort == SStr {
				return CV{V: env.e.strEq(ta, tb), T: boolT}
			}
			return CV{V: Eq(ta, tb), T: boolT}
		case "!=":
			if sort == SStr {
				return CV{V: Not(env.e.strEq(ta, tb)), T: boolT}
			}
			return CV{V: Neq(ta, tb), T: boolT}
		}
		cfail("operator %s on %s", x.Op, sort)
	}
	cmp := func(s, u func(a, b *Term) *Term) CV {
		if signed {
			return CV{V: s(ta, tb), T: boolT}
		}
		return CV{V: u(ta, tb), T: boolT}
	}
	switch x.Op {
	case "==":
		return CV{V: Eq(ta, tb), T: boolT}
	case "!=":
		return CV{V: Neq(ta, tb), T: boolT}
	case "<":
		return cmp(SLt, ULt)
	case "<=":
		return cmp(SLe, ULe)
	case ">":
		return cmp(SGt, UGt)
	case ">=":
		return cmp(SGe, UGe)
	case "+":
		return CV{V: BVAdd(ta, tb), T: T}
	case "-":
		return CV{V: BVSub(ta, tb), T: T}
	case "*":
		return CV{V: BVMul(ta, tb), T: T}
	case "/":
		if signed {
			return CV{V: bvBin("bvsdiv", ta, tb), T: T}
		}
		return CV{V: bvBin("bvudiv", ta, tb), T: T}
	case "%":
		if signed {
			return CV{V: bvBin("bvsrem", ta, tb), T: T}
		}
		return CV{V: bvBin("bvurem", ta, tb), T: T}
	case "&":
		return CV{V: bvBin("bvand", ta, tb), T: T}
	case "|":
		return CV{V: bvBin("bvor", ta, tb), T: T}
	case "^":
		return CV{V: bvBin("bvxor", ta, tb), T: T}
	case "<<":
		return CV{V: bvBin("bvshl", ta, tb), T: T}
	case ">>":
		if signed {
			return CV{V: bvBin("bvashr", ta, tb), T: T}
		}
		return CV{V: bvBin("bvlshr", ta, tb), T: T}
	}
	cfail("operator %s", x.Op)
	return CV{}
}

func (env *CEnv) quant(x *CExpr) CV {
	sub := env.child()
	sub.qdepth++
	var vars [][2]string
	var ranges []*Term
	for _, v := range x.Vars {
		env.e.root.cellN++
		name := fmt.Sprintf("q.%s.d%d", v.Name, sub.qdepth) // canonical: equal quantified formulas print equal
		var sort string
		var T types.Type
		switch v.Type {
		case "int", "int64":
			sort, T = BV(64), types.Typ[types.Int]
		case "uint64", "uint":
			sort, T = BV(64), types.Typ[types.Uint64]
		case "int32":
			sort, T = BV(32), types.Typ[types.Int32]
		case "uint32":
			sort, T = BV(32), types.Typ[types.Uint32]
		case "byte", "uint8":
			sort, T = BV(8), types.Typ[types.Uint8]
		case "bool":
			sort, T = SBool, types.Typ[types.Bool]
		case "Ref":
			sort = SInt
		case "Seq":
			sort = "BSeq"
		case "Time":
			sort, T = STime, timeType(env.e.P)
		case "string":
			sort, T = SStr, types.Typ[types.String]
		default:
			// a named struct type of the program
			if nt := env.e.P.lookupType(v.Type); nt != nil {
				sort, T = sortOf(nt), nt
			} else {
				cfail("quantifier over type %s", v.Type)
			}
		}
		vars = append(vars, [2]string{name, sort})
		sub.vars[v.Name] = CV{V: Sym(name, sort), T: T}
		// bound variables of time or struct type range over well-formed values
		if T != nil && hasInv(T) {
			if _, isStruct := types.Unalias(T).Underlying().(*types.Struct); isStruct || isTimeType(T) {
				ac := IntLit(1)
				if env.st != nil && env.st.ac != nil {
					ac = env.st.ac
				}
				ranges = append(ranges, invOf(T, Sym(name, sort), ac))
			}
		}
	}
	var body *Term
	env.e.vc.frozen++
	func() {
		defer func() { env.e.vc.frozen-- }()
		body = sub.adapt(sub.eval(x.X), SBool)
	}()
	if x.Kind == "forall" {
		if len(ranges) > 0 {
			body = Implies(And(ranges...), body)
		}
		return CV{V: Forall(vars, body), T: types.Typ[types.Bool]}
	}
	if len(ranges) > 0 {
		body = And(append(append([]*Term{}, ranges...), body)...)
	}
	return CV{V: Exists(vars, body), T: types.Typ[types.Bool]}
}

func (env *CEnv) call(x *CExpr) CV {
	// builtins and conversions
	if x.X.Kind == "ident" {
		switch x.X.Name {
		case "len":
			v := env.eval(x.Args[0])
			if v.T == nil {
				t := env.asTerm(v)
				if t.Sort == "BSeq" {
					return CV{V: App("bseq.len", BV(64), t), T: types.Typ[types.Int]}
				}
				cfail("len of a pure SMT value")
			}
			var out *Term
			env.withState(env.st, func() { out = env.e.lenOf(v.V, v.T) })
			return CV{V: out, T: types.Typ[types.Int]}
		case "cap":
			v := env.eval(x.Args[0])
			return CV{V: SlCap(env.asTerm(v)), T: types.Typ[types.Int]}
		case "ite":
			c := env.adapt(env.eval(x.Args[0]), SBool)
			a, b := env.eval(x.Args[1]), env.eval(x.Args[2])
			var sort string
			T := a.T
			if a.Untyped == nil && !a.IsNil {
				sort = env.asTerm(a).Sort
			} else if b.Untyped == nil && !b.IsNil {
				sort, T = env.asTerm(b).Sort, b.T
			} else {
				sort = BV(64)
			}
			return CV{V: Ite(c, env.adapt(a, sort), env.adapt(b, sort)), T: T}
		case "bytes":
			// abstraction of the contents of a byte slice / string as a sequence value
			v := env.eval(x.Args[0])
			return CV{V: env.seqOf(v)}
		case "ref":
			v := env.eval(x.Args[0])
			t := env.asTerm(v)
			if t.Sort == SSlice {
				return CV{V: SlRef(t)}
			}
			return CV{V: t}
		case "fresh":
			// fresh(x): the object / backing array of x was allocated during the call (or x is nil)
			v := env.eval(x.Args[0])
			t := env.asTerm(v)
			if t.Sort == SSlice {
				t = SlRef(t)
			} else if t.Sort == SIface {
				t = IfRef(t)
			}
			if env.old == nil {
				cfail("fresh() only in postconditions")
			}
			return CV{V: Or(Eq(t, IntLit(0)), IntLe(env.old.ac, t)), T: types.Typ[types.Bool]}
		case "iref":
			return CV{V: IfRef(env.asTerm(env.eval(x.Args[0])))}
		case "ctxval":
			// ctxval(ctx): the value a context made by context.WithValue carries (ghost)
			cx := env.asTerm(env.eval(x.Args[0]))
			var out *Term
			env.withState(env.st, func() { out = Select(env.e.heapGet("GH.ctxval", "(Array Int Iface)"), IfRef(cx)) })
			return CV{V: out}
		case "ctxkeystr":
			// ctxkeystr(ctx, s): the context was made by WithValue with the string key s
			cx := env.asTerm(env.eval(x.Args[0]))
			s := env.adapt(env.eval(x.Args[1]), SStr)
			var out *Term
			env.withState(env.st, func() {
				k := Select(env.e.heapGet("GH.ctxkey", "(Array Int Iface)"), IfRef(cx))
				bh := env.e.heapGet(boxHeapName(types.Typ[types.String]), ArraySort(SInt, SStr))
				out = And(Eq(IfTag(k), IntLit(typeID(types.Typ[types.String]))), Eq(Select(bh, IfRef(k)), s))
			})
			return CV{V: out, T: types.Typ[types.Bool]}
		case "ctxhasval":
			cx := env.asTerm(env.eval(x.Args[0]))
			return CV{V: Eq(IfTag(cx), IntLit(env.e.P.symbolID("tid.context.valueCtx"))), T: types.Typ[types.Bool]}
		case "tagof":
			v := env.eval(x.Args[0])
			return CV{V: IfTag(env.asTerm(v))}
		case "typeid":
			// typeid("pkg.T") / typeid("*pkg.T")
			if x.Args[0].Kind != "str" {
				cfail("typeid needs a string literal")
			}
			s, _ := strconv.Unquote(x.Args[0].Name)
			t := env.e.P.lookupType(s)
			if t == nil {
				cfail("typeid: unknown type %s", s)
			}
			return CV{V: IntLit(typeID(t))}
		case "unbox":
			// unbox(iface, "pkg.T")
			s, _ := strconv.Unquote(x.Args[1].Name)
			t := env.e.P.lookupType(s)
			if t == nil {
				cfail("unbox: unknown type %s", s)
			}
			v := env.eval(x.Args[0])
			var out CV
			env.withState(env.st, func() { out = CV{V: env.e.unbox(env.asTerm(v), t), T: t} })
			return out
		case "strjoin":
			// strjoin(elems, sep): the model of strings.Join
			sl := env.asTerm(env.eval(x.Args[0]))
			sep := env.adapt(env.eval(x.Args[1]), SStr)
			var out *Term
			env.withState(env.st, func() { out = env.e.strJoin(sl, sep) })
			return CV{V: out, T: types.Typ[types.String]}
		case "sidstr":
			// sidstr(x): the model of mstypes.RPCSID.String on the SID value x
			st := env.asTerm(env.eval(x.Args[0]))
			var out *Term
			env.withState(env.st, func() { out = env.e.sidString(st) })
			if out == nil {
				cfail("sidstr: mstypes.RPCSID is not in the program")
			}
			return CV{V: out, T: types.Typ[types.String]}
		case "mk":
			// mk("pkg.T", f1, f2, ...): a struct value from its field values in declaration order
			s, _ := strconv.Unquote(x.Args[0].Name)
			t := env.e.P.lookupType(s)
			if t == nil {
				cfail("mk: unknown type %s", s)
			}
			si := structInfo(t)
			if len(x.Args)-1 != len(si.Fields) {
				cfail("mk: %s has %d fields", s, len(si.Fields))
			}
			args := make([]*Term, len(si.Fields))
			for i := range si.Fields {
				args[i] = env.adapt(env.eval(x.Args[i+1]), si.Fields[i].Sort)
			}
			return CV{V: Mk(si.Ctor, si.Sort, args...), T: t}
		case "held":
			// held(lock): 0 none, 1 read, 2 write
			p := env.lockPtr(x.Args[0])
			if p == nil {
				cfail("held: not a lock path")
			}
			var out *Term
			env.withState(env.st, func() { out = env.e.heldGet(lockKey(p), env.e.guardOfLock(p)) })
			return CV{V: Resize(int2bvHeld(out), 64, false), T: types.Typ[types.Int]}
		case "atlock":
			// atlock(e): e in the state right after the last acquisition of a declared lock
			st := env.atlock
			if st == nil && env.st != nil {
				st = env.st.atlock
			}
			if st == nil {
				cfail("atlock: no unique lock acquisition on this path")
			}
			sub := *env
			sub.st = st
			return sub.eval(x.Args[0])
		case "present":
			// present(m, k): key k is in map m
			m := env.eval(x.Args[0])
			u, ok := types.Unalias(m.T).Underlying().(*types.Map)
			if !ok {
				cfail("present: not a map")
			}
			k := env.adapt(env.eval(x.Args[1]), sortOf(u.Key()))
			var out *Term
			env.withState(env.st, func() {
				mp, _ := mapHeapNames(u)
				ps := ArraySort(SInt, ArraySort(sortOf(u.Key()), SBool))
				mr := env.asTerm(m)
				out = And(Neq(mr, IntLit(0)), Select(Select(env.e.heapGet(mp, ps), mr), k))
			})
			return CV{V: out, T: types.Typ[types.Bool]}
		}
	}
	// conversion T(x) / pkg.T(x)
	if tv := env.tryType(x.X); tv != nil && len(x.Args) == 1 {
		return env.convert(env.eval(x.Args[0]), tv)
	}
	// contract-level definition (macro)
	if x.X.Kind == "ident" {
		if d := env.e.P.Defines[x.X.Name]; d != nil {
			if len(d.Params) != len(x.Args) {
				cfail("%s takes %d arguments", d.Name, len(d.Params))
			}
			sub := env.child()
			for i, a := range x.Args {
				sub.vars[d.Params[i]] = env.eval(a)
			}
			sub.lookup = nil
			return sub.eval(d.E)
		}
	}
	// spec function
	if x.X.Kind == "ident" {
		if fn := env.e.vc.specs.Fns[x.X.Name]; fn != nil {
			if len(fn.Args) != len(x.Args) {
				cfail("spec function %s takes %d arguments", fn.Name, len(fn.Args))
			}
			args := make([]*Term, len(x.Args))
			for i, a := range x.Args {
				args[i] = env.adapt(env.eval(a), fn.Args[i])
				if args[i].Sort != fn.Args[i] {
					cfail("argument %d of %s has sort %s, want %s", i+1, fn.Name, args[i].Sort, fn.Args[i])
				}
			}
			return CV{V: App(fn.Name, fn.Res, args...)}
		}
	}
	// pure Go methods with built-in models
	if x.X.Kind == "sel" {
		recv := env.eval(x.X.X)
		if recv.Pkg == nil && recv.T != nil {
			if v, ok := env.pureMethod(recv, x.X.Name, x.Args); ok {
				return v
			}
		}
	}
	cfail("unknown function %s in contract", x.X)
	return CV{}
}

func (env *CEnv) tryType(x *CExpr) types.Type {
	defer func() { recover() }()
	switch x.Kind {
	case "ident":
		if _, shadow := env.vars[x.Name]; shadow {
			return nil
		}
		cv := env.ident(x.Name)
		return cv.TypeRef
	case "sel":
		if x.X.Kind == "ident" {
			if _, shadow := env.vars[x.X.Name]; shadow {
				return nil
			}
			b := env.ident(x.X.Name)
			if b.Pkg != nil {
				if tn, ok := b.Pkg.Scope().Lookup(x.Name).(*types.TypeName); ok {
					return tn.Type()
				}
			}
		}
	}
	return nil
}

func (env *CEnv) convert(v CV, to types.Type) CV {
	if isInteger(to) {
		w := bvWidth(sortOf(to))
		if v.Untyped != nil {
			return CV{V: BVLit(v.Untyped, w), T: to}
		}
		t := env.asTerm(v)
		if bvWidth(t.Sort) == 0 {
			cfail("conversion of %s to integer", t.Sort)
		}
		signed := true
		if v.T != nil {
			signed = isSigned(v.T)
		}
		return CV{V: Resize(t, w, signed), T: to}
	}
	t := env.asTerm(v)
	if sortOf(to) == t.Sort {
		return CV{V: t, T: to}
	}
	cfail("conversion to %s not supported in contracts", to)
	return CV{}
}

// seqOf abstracts bytes to the uninterpreted sequence sort used by crypto/codec spec functions.
func (env *CEnv) seqOf(v CV) *Term {
	t := env.asTerm(v)
	switch t.Sort {
	case SSlice:
		var arr *Term
		env.withState(env.st, func() { arr = env.e.backingCanon(t, types.Typ[types.Byte]) })
		return App("bseq.of", "BSeq", arr, SlOff(t), SlLen(t))
	case SStr:
		return App("bseq.of", "BSeq", StrArr(t), bv64zero, StrLen(t))
	case "BSeq":
		return t
	}
	cfail("bytes() of %s", t.Sort)
	return nil
}

func (p *Program) lookupType(s string) types.Type {
	ptr := strings.HasPrefix(s, "*")
	s = strings.TrimPrefix(s, "*")
	i := strings.LastIndex(s, ".")
	if i < 0 {
		return nil
	}
	pkgPath, name := s[:i], s[i+1:]
	for _, pk := range p.SSA.AllPackages() {
		pp := pk.Pkg.Path()
		if pp == pkgPath || shortName(pp) == pkgPath || pk.Pkg.Name() == pkgPath && strings.HasPrefix(pp, strings.TrimSuffix(modPrefix, "/")) {
			if tn, ok := pk.Pkg.Scope().Lookup(name).(*types.TypeName); ok {
				if ptr {
					return types.NewPointer(tn.Type())
				}
				return tn.Type()
			}
		}
	}
	return nil
}

func (env *CEnv) pureMethod(recv CV, name string, args []*CExpr) (CV, bool) {
	if isTimeType(recv.T) {
		t := env.asTerm(recv)
		switch name {
		case "IsZero":
			return CV{V: Eq(t, BVLitI(0, 128)), T: types.Typ[types.Bool]}, true
		case "After":
			o := env.asTerm(env.eval(args[0]))
			return CV{V: SGt(t, o), T: types.Typ[types.Bool]}, true
		case "Before":
			o := env.asTerm(env.eval(args[0]))
			return CV{V: SLt(t, o), T: types.Typ[types.Bool]}, true
		case "Equal":
			o := env.asTerm(env.eval(args[0]))
			return CV{V: Eq(t, o), T: types.Typ[types.Bool]}, true
		case "Sub":
			o := env.asTerm(env.eval(args[0]))
			d := BVSub(t, o)
			maxD := BVLit(mask(63), 128)
			minD := BVNeg(BVAdd(maxD, BVLitI(1, 128)))
			r := Ite(SGt(d, maxD), BVLit(mask(63), 64), Ite(SLt(d, minD), BVLit(new(big.Int).Lsh(big.NewInt(1), 63), 64), Resize(d, 64, true)))
			return CV{V: r, T: durationType(env.e.P)}, true
		case "Add":
			o := env.adapt(env.eval(args[0]), BV(64))
			return CV{V: BVAdd(t, Resize(o, 128, true)), T: recv.T}, true
		case "UTC":
			return recv, true
		case "Unix":
			return CV{V: App("timeunix", BV(64), t), T: types.Typ[types.Int64]}, true
		}
	}
	return CV{}, false
}

// int2bvHeld turns a lock level (Int 0..2) into a 64-bit value without int2bv.
func int2bvHeld(t *Term) *Term {
	return Ite(Eq(t, IntLit(0)), BVLitI(0, 64), Ite(Eq(t, IntLit(1)), BVLitI(1, 64), BVLitI(2, 64)))
}

// lockPtr resolves a lock expression p.f (p a pointer to a struct, f a mutex field) to the field's address.
func (env *CEnv) lockPtr(x *CExpr) *Ptr {
	if x.Kind != "sel" {
		return nil
	}
	base := env.eval(x.X)
	pt, ok := types.Unalias(base.T).Underlying().(*types.Pointer)
	if !ok {
		return nil
	}
	st, ok := types.Unalias(pt.Elem()).Underlying().(*types.Struct)
	if !ok {
		return nil
	}
	idx, ft := fieldByName(st, x.Name)
	p, isP := base.V.(*Ptr)
	if idx < 0 || !isP {
		return nil
	}
	np := *p
	np.NonNil = true
	np.Path = append(append([]PathEl(nil), p.Path...), PathEl{Field: idx, ContT: pt.Elem()})
	np.Typ = ft
	return &np
}
