package main

// Go-coded models of external functions (trusted; every one used is listed in the evidence).

import (
	"go/types"

	"golang.org/x/tools/go/ssa"
)

type goModel func(e *Exec, c *ssa.CallCommon, args []Val, in ssa.Instruction) (Val, bool)

var goModels map[string]goModel
var deferModels map[string]func(e *Exec, d deferRec)

const unixEpochSec = 62135596800

func init() {
	goModels = map[string]goModel{
		"time.Now":          modelNow,
		"(time.Time).UTC":   modelIdentity0,
		"(time.Time).Local": modelIdentity0,
		"(time.Time).Round": modelIdentity0,
		"(time.Time).Truncate": modelIdentity0,
		"(time.Time).Sub":   modelTimeSub,
		"(time.Time).Add":   modelTimeAdd,
		"(time.Time).After": func(e *Exec, c *ssa.CallCommon, a []Val, in ssa.Instruction) (Val, bool) {
			e.trust("time.Time.After/Before/Equal/IsZero exact on instants")
			return SGt(a[0].(*Term), a[1].(*Term)), true
		},
		"(time.Time).Before": func(e *Exec, c *ssa.CallCommon, a []Val, in ssa.Instruction) (Val, bool) {
			e.trust("time.Time.After/Before/Equal/IsZero exact on instants")
			return SLt(a[0].(*Term), a[1].(*Term)), true
		},
		"(time.Time).Equal": func(e *Exec, c *ssa.CallCommon, a []Val, in ssa.Instruction) (Val, bool) {
			e.trust("time.Time.After/Before/Equal/IsZero exact on instants")
			return Eq(a[0].(*Term), a[1].(*Term)), true
		},
		"(time.Time).IsZero": func(e *Exec, c *ssa.CallCommon, a []Val, in ssa.Instruction) (Val, bool) {
			e.trust("time.Time.After/Before/Equal/IsZero exact on instants")
			return Eq(a[0].(*Term), BVLitI(0, 128)), true
		},
		"time.Since": func(e *Exec, c *ssa.CallCommon, a []Val, in ssa.Instruction) (Val, bool) {
			now, _ := modelNow(e, c, nil, in)
			return timeSub(e, now.(*Term), a[0].(*Term)), true
		},
		"time.Unix": func(e *Exec, c *ssa.CallCommon, a []Val, in ssa.Instruction) (Val, bool) {
			e.trust("time.Unix(sec,nsec) = epoch + sec*1e9 + nsec on 128-bit instants")
			sec := Resize(a[0].(*Term), 128, true)
			ns := Resize(a[1].(*Term), 128, true)
			t := BVAdd(BVMul(BVAdd(sec, BVLitI(unixEpochSec, 128)), BVLitI(1000000000, 128)), ns)
			return e.vc.Define("tm", t), true
		},
		"(time.Time).Unix": func(e *Exec, c *ssa.CallCommon, a []Val, in ssa.Instruction) (Val, bool) {
			e.trust("time.Time.Unix() = instant/1e9 - epoch (truncating)")
			t := a[0].(*Term)
			s := BVSub(bvBin("bvsdiv", t, BVLitI(1000000000, 128)), BVLitI(unixEpochSec, 128))
			return e.vc.Define("unix", Resize(s, 64, true)), true
		},
		"(time.Time).Nanosecond": func(e *Exec, c *ssa.CallCommon, a []Val, in ssa.Instruction) (Val, bool) {
			r := e.vc.Fresh("nsec", BV(64))
			e.vc.Assume(True, And(SGe(r, bv64zero), SLt(r, BVLitI(1000000000, 64))))
			return r, true
		},
		"bytes.Equal":        modelBytesEqual,
		"crypto/hmac.Equal":  modelBytesEqual,
		"errors.New":         modelNewError,
		"fmt.Errorf":         modelNewError,
		"(*sync.RWMutex).Lock":    modelLock(2, true),
		"(*sync.RWMutex).RLock":   modelLock(1, true),
		"(*sync.RWMutex).Unlock":  modelLock(2, false),
		"(*sync.RWMutex).RUnlock": modelLock(1, false),
		"(*sync.Mutex).Lock":      modelLock(2, true),
		"(*sync.Mutex).Unlock":    modelLock(2, false),
	}
	for _, bo := range []struct {
		name string
		big  bool
	}{{"bigEndian", true}, {"littleEndian", false}} {
		for _, w := range []int{16, 32, 64} {
			w, big := w, bo.big
			goModels["(encoding/binary."+bo.name+").Uint"+itoa(w)] = func(e *Exec, c *ssa.CallCommon, a []Val, in ssa.Instruction) (Val, bool) {
				return modelGetUint(e, a[1].(*Term), w, big), true
			}
			goModels["(encoding/binary."+bo.name+").PutUint"+itoa(w)] = func(e *Exec, c *ssa.CallCommon, a []Val, in ssa.Instruction) (Val, bool) {
				modelPutUint(e, a[1].(*Term), a[2].(*Term), w, big)
				return nil, true
			}
		}
	}
	deferModels = map[string]func(e *Exec, d deferRec){
		"(*sync.RWMutex).Unlock":  func(e *Exec, d deferRec) { e.lockOp(d.args[0], 2, false, d.g) },
		"(*sync.RWMutex).RUnlock": func(e *Exec, d deferRec) { e.lockOp(d.args[0], 1, false, d.g) },
		"(*sync.Mutex).Unlock":    func(e *Exec, d deferRec) { e.lockOp(d.args[0], 2, false, d.g) },
	}
}

func itoa(n int) string {
	switch n {
	case 16:
		return "16"
	case 32:
		return "32"
	}
	return "64"
}

func (e *Exec) trust(s string) { e.vc.Trusted["model: "+s] = true }

func modelIdentity0(e *Exec, c *ssa.CallCommon, a []Val, in ssa.Instruction) (Val, bool) {
	e.trust("time.Time.UTC/Local identity on instants (locations and monotonic readings ignored)")
	return a[0], true
}

func modelNow(e *Exec, c *ssa.CallCommon, a []Val, in ssa.Instruction) (Val, bool) {
	e.trust("time.Now returns an arbitrary non-decreasing instant between years 1970 and 9999 (ghost clock)")
	t := e.vc.Fresh("now", STime)
	lo := BVMul(BVLitI(unixEpochSec, 128), BVLitI(1000000000, 128))
	hi := BVMul(BVLitI(unixEpochSec+253402300800, 128), BVLitI(1000000000, 128))
	e.vc.Assume(True, And(SGe(t, lo), SLe(t, hi)))
	if n := len(e.root.nows); n > 0 {
		e.vc.Assume(True, SGe(t, e.root.nows[n-1]))
	}
	if !e.silent {
		e.root.nows = append(e.root.nows, t)
	}
	return t, true
}

func timeSub(e *Exec, a, b *Term) *Term {
	e.trust("time.Time.Sub exact with saturation to int64 nanoseconds")
	d := e.vc.Define("dt", BVSub(a, b))
	maxD := BVLit(mask(63), 128)
	minD := BVNeg(BVAdd(maxD, BVLitI(1, 128)))
	r := Ite(SGt(d, maxD), BVLit(mask(63), 64), Ite(SLt(d, minD), BVLit(new(bigInt).Lsh(one, 63), 64), Resize(d, 64, true)))
	return e.vc.Define("dur", r)
}

func modelTimeSub(e *Exec, c *ssa.CallCommon, a []Val, in ssa.Instruction) (Val, bool) {
	return timeSub(e, a[0].(*Term), a[1].(*Term)), true
}

func modelTimeAdd(e *Exec, c *ssa.CallCommon, a []Val, in ssa.Instruction) (Val, bool) {
	e.trust("time.Time.Add exact on 128-bit instants")
	return e.vc.Define("tm", BVAdd(a[0].(*Term), Resize(a[1].(*Term), 128, true))), true
}

// bytesEq builds: r <=> len(a)=len(b) and contents equal.
func (e *Exec) bytesEq(a, b *Term) *Term {
	el := types.Typ[types.Byte]
	aa, ba := e.vc.Define("ea", e.backing(a, el)), e.vc.Define("eb", e.backing(b, el))
	k := Sym("k", BV(64))
	body := Implies(And(SGe(k, bv64zero), SLt(k, SlLen(a))), Eq(Select(aa, BVAdd(SlOff(a), k)), Select(ba, BVAdd(SlOff(b), k))))
	r := e.vc.Fresh("beq", SBool)
	e.vc.Assume(True, Eq(r, And(Eq(SlLen(a), SlLen(b)), Forall([][2]string{{"k", BV(64)}}, body))))
	return r
}

func modelBytesEqual(e *Exec, c *ssa.CallCommon, a []Val, in ssa.Instruction) (Val, bool) {
	e.trust("bytes.Equal / hmac.Equal: true iff equal length and equal contents")
	return e.bytesEq(a[0].(*Term), a[1].(*Term)), true
}

func modelNewError(e *Exec, c *ssa.CallCommon, a []Val, in ssa.Instruction) (Val, bool) {
	e.trust("errors.New / fmt.Errorf return a non-nil error")
	r := e.havocTerm("err", c.Signature().Results().At(0).Type())
	e.vc.Assume(True, Neq(IfTag(r), IntLit(0)))
	// distinguishable from repository error types
	e.vc.Assume(True, Eq(IfTag(r), IntLit(typeID(types.NewPointer(errorsStringType(e.P))))))
	return r, true
}

func errorsStringType(p *Program) types.Type {
	for _, pk := range p.SSA.AllPackages() {
		if pk.Pkg.Path() == "errors" {
			if o := pk.Pkg.Scope().Lookup("errorString"); o != nil {
				return o.Type()
			}
		}
	}
	return types.Typ[types.Int]
}

func modelGetUint(e *Exec, b *Term, w int, big bool) *Term {
	e.trust("encoding/binary ByteOrder.Uint*/PutUint* exact (panic when the slice is short)")
	n := int64(w / 8)
	e.check("bounds", SGe(SlLen(b), BVLitI(n, 64)), "binary.ByteOrder access beyond slice length")
	arr := e.vc.Define("ba", e.backing(b, types.Typ[types.Byte]))
	var r *Term
	for i := int64(0); i < n; i++ {
		idx := i
		if !big {
			idx = n - 1 - i
		}
		by := Select(arr, BVAdd(SlOff(b), BVLitI(idx, 64)))
		if r == nil {
			r = by
		} else {
			r = Concat(r, by)
		}
	}
	return e.vc.Define("u", r)
}

func modelPutUint(e *Exec, b *Term, v *Term, w int, big bool) {
	e.trust("encoding/binary ByteOrder.Uint*/PutUint* exact (panic when the slice is short)")
	n := int64(w / 8)
	e.check("bounds", SGe(SlLen(b), BVLitI(n, 64)), "binary.ByteOrder access beyond slice length")
	arr := e.backing(b, types.Typ[types.Byte])
	for i := int64(0); i < n; i++ {
		// byte i of the big-endian representation
		hi := w - 1 - int(i)*8
		by := Extract(v, hi, hi-7)
		idx := i
		if !big {
			idx = n - 1 - i
		}
		arr = Store(arr, BVAdd(SlOff(b), BVLitI(idx, 64)), by)
	}
	e.setBacking(SlRef(b), types.Typ[types.Byte], e.vc.Define("ba", arr))
}

// ---------- locks (lockset ghost state; rules used by C02/C11) ----------

func lockKey(v Val) string {
	p, ok := v.(*Ptr)
	if !ok {
		return "?"
	}
	s := ""
	switch p.Kind {
	case PHeap:
		s = "H:" + p.Ref.String()
	case PCell:
		s = "C"
	case PGlobal:
		s = "G:" + p.Global.Name()
	}
	for _, pe := range p.Path {
		s += "." + itoa2(pe.Field)
	}
	return s
}

func itoa2(n int) string {
	const digits = "0123456789"
	if n == 0 {
		return "0"
	}
	s := ""
	for n > 0 {
		s = string(digits[n%10]) + s
		n /= 10
	}
	return s
}

func modelLock(level int, acquire bool) goModel {
	return func(e *Exec, c *ssa.CallCommon, a []Val, in ssa.Instruction) (Val, bool) {
		e.lockOp(a[0], level, acquire, e.g)
		return nil, true
	}
}

// lockOp updates the lockset; the lock-invariant (havoc at acquire) rule is applied by the property driver hook.
func (e *Exec) lockOp(lock Val, level int, acquire bool, g *Term) {
	k := lockKey(lock)
	cur, ok := e.st.held[k]
	if !ok {
		cur = IntLit(0)
	}
	if acquire {
		if e.onAcquire != nil {
			e.onAcquire(e, lock, level)
		}
		e.st.held[k] = Ite(g, IntLit(int64(level)), cur)
	} else {
		e.st.held[k] = Ite(g, IntLit(0), cur)
	}
}

func (e *Exec) lockCheck(p *Ptr, write bool) {
	if e.onAccess != nil && !e.silent {
		e.onAccess(e, p, write)
	}
}
