package main

// Go-coded models of external functions (trusted; every one used is listed in the evidence).

import (
	"sort"
	"strings"
	"go/types"

	"golang.org/x/tools/go/ssa"
)

type goModel func(e *Exec, c *ssa.CallCommon, args []Val, in ssa.Instruction) (Val, bool)

var goModels map[string]goModel
var deferModels map[string]func(e *Exec, d deferRec)

const unixEpochSec = 62135596800

func init() {
	goModels = map[string]goModel{
		"time.Now":          modelNow,
		"(time.Time).UTC":   modelIdentity0,
		"(time.Time).Local": modelIdentity0,
		"(time.Time).Round": modelIdentity0,
		"(time.Time).Truncate": modelIdentity0,
		"(time.Time).Sub":   modelTimeSub,
		"(time.Time).Add":   modelTimeAdd,
		"(time.Time).After": func(e *Exec, c *ssa.CallCommon, a []Val, in ssa.Instruction) (Val, bool) {
			e.trust("time.Time.After/Before/Equal/IsZero exact on instants")
			return SGt(a[0].(*Term), a[1].(*Term)), true
		},
		"(time.Time).Before": func(e *Exec, c *ssa.CallCommon, a []Val, in ssa.Instruction) (Val, bool) {
			e.trust("time.Time.After/Before/Equal/IsZero exact on instants")
			return SLt(a[0].(*Term), a[1].(*Term)), true
		},
		"(time.Time).Equal": func(e *Exec, c *ssa.CallCommon, a []Val, in ssa.Instruction) (Val, bool) {
			e.trust("time.Time.After/Before/Equal/IsZero exact on instants")
			return Eq(a[0].(*Term), a[1].(*Term)), true
		},
		"(time.Time).IsZero": func(e *Exec, c *ssa.CallCommon, a []Val, in ssa.Instruction) (Val, bool) {
			e.trust("time.Time.After/Before/Equal/IsZero exact on instants")
			return Eq(a[0].(*Term), BVLitI(0, 128)), true
		},
		"time.Since": func(e *Exec, c *ssa.CallCommon, a []Val, in ssa.Instruction) (Val, bool) {
			now, _ := modelNow(e, c, nil, in)
			return timeSub(e, now.(*Term), a[0].(*Term)), true
		},
		"time.Unix": func(e *Exec, c *ssa.CallCommon, a []Val, in ssa.Instruction) (Val, bool) {
			e.trust("time.Unix(sec,nsec) = epoch + sec*1e9 + nsec on 128-bit instants")
			sec := Resize(a[0].(*Term), 128, true)
			ns := Resize(a[1].(*Term), 128, true)
			t := e.vc.Define("tm", BVAdd(BVMul(BVAdd(sec, BVLitI(unixEpochSec, 128)), BVLitI(1000000000, 128)), ns))
			if nsT := a[1].(*Term); nsT.IsLit() && nsT.Lit.Sign() == 0 {
				e.vc.Assume(True, Eq(App("timeunix", BV(64), t), a[0].(*Term)))
			}
			return t, true
		},
		"(time.Time).Unix": func(e *Exec, c *ssa.CallCommon, a []Val, in ssa.Instruction) (Val, bool) {
			e.trust("time.Time.Unix() is the uninterpreted function timeunix(instant), with timeunix(time.Unix(s, 0)) = s")
			return App("timeunix", BV(64), a[0].(*Term)), true
		},
		"(time.Time).Nanosecond": func(e *Exec, c *ssa.CallCommon, a []Val, in ssa.Instruction) (Val, bool) {
			r := e.vc.Fresh("nsec", BV(64))
			e.vc.Assume(True, And(SGe(r, bv64zero), SLt(r, BVLitI(1000000000, 64))))
			return r, true
		},
		"(time.Duration).Nanoseconds": func(e *Exec, c *ssa.CallCommon, a []Val, in ssa.Instruction) (Val, bool) {
			return a[0], true
		},
		"bytes.Equal":        modelBytesEqual,
		"strings.Join": func(e *Exec, c *ssa.CallCommon, a []Val, in ssa.Instruction) (Val, bool) {
			e.trust("strings.Join is the uninterpreted function strjoin(elements, separator) of the slice contents")
			return e.strJoin(a[0].(*Term), a[1].(*Term)), true
		},
		"crypto/hmac.Equal":  modelBytesEqual,
		"errors.New":         modelNewError,
		"fmt.Errorf":         modelNewError,
		"(*sync.RWMutex).Lock":    modelLock(2, true),
		"(*sync.RWMutex).RLock":   modelLock(1, true),
		"(*sync.RWMutex).Unlock":  modelLock(2, false),
		"(*sync.RWMutex).RUnlock": modelLock(1, false),
		"(*sync.Mutex).Lock":      modelLock(2, true),
		"(*sync.Mutex).Unlock":    modelLock(2, false),
	}
	for name, size := range map[string]int64{"crypto/sha1.New": 20, "crypto/sha256.New": 32, "crypto/sha512.New384": 48, "crypto/sha512.New": 64, "crypto/md5.New": 16, "golang.org/x/crypto/md4.New": 16} {
		size, name := size, name
		goModels[name] = func(e *Exec, c *ssa.CallCommon, a []Val, in ssa.Instruction) (Val, bool) {
			return e.newHash(BVLitI(size, 64), IntLit(fnIDByName(name)), nil), true
		}
	}
	goModels["crypto/hmac.New"] = func(e *Exec, c *ssa.CallCommon, a []Val, in ssa.Instruction) (Val, bool) {
		h := e.toTerm(a[0], c.Args[0].Type())
		k := a[1].(*Term)
		return e.newHash(App("hashsize", BV(64), h), h, e.bseqOf(k)), true
	}
	goModels["(hash.Hash).Sum"] = func(e *Exec, c *ssa.CallCommon, a []Val, in ssa.Instruction) (Val, bool) {
		e.trust("hash.Hash objects: Write appends to the hashed data, Sum(b) returns a fresh slice b || digest where digest = hmac(fn, key, data) for hmac.New objects and hashf(fn, data) for plain hashes (uninterpreted), Size() is fixed at construction")
		h, b := a[0].(*Term), a[1].(*Term)
		r := e.allocRef("sum")
		n, hs := elemHeap(types.Typ[types.Byte])
		arr := e.vc.Fresh("digest", ArraySort(BV(64), BV(8)))
		e.heapSet(n, Store(e.heapGet(n, hs), r, arr))
		ln := e.vc.Define("sumlen", BVAdd(SlLen(b), App("hsize", BV(64), IfRef(h))))
		res := MkSlice(r, bv64zero, ln, ln)
		ref := IfRef(h)
		fn := e.ghGet("GH.hfn", "(Array Int Int)", ref)
		key := e.ghGet("GH.hkey", "(Array Int BSeq)", ref)
		keyed := e.ghGet("GH.hkeyed", "(Array Int Bool)", ref)
		data := e.ghGet("GH.hdata", "(Array Int BSeq)", ref)
		digest := Ite(keyed, App("hmac", "BSeq", fn, key, data), App("hashf", "BSeq", fn, data))
		out := App("bseq.of", "BSeq", arr, bv64zero, ln)
		if same(b, NilSlice) || (b.Op == "mk-slice" && b.Args[2].IsLit() && b.Args[2].Lit.Sign() == 0) {
			e.vc.Assume(e.g, Eq(out, digest))
		} else {
			e.vc.Assume(e.g, Eq(out, App("seqcat", "BSeq", e.bseqOf(b), digest)))
		}
		return res, true
	}
	goModels["(hash.Hash).Write"] = func(e *Exec, c *ssa.CallCommon, a []Val, in ssa.Instruction) (Val, bool) {
		e.trust("hash.Hash objects: Write appends to the hashed data, Sum(b) returns a fresh slice b || digest where digest = hmac(fn, key, data) for hmac.New objects and hashf(fn, data) for plain hashes (uninterpreted), Size() is fixed at construction")
		h, p := a[0].(*Term), a[1].(*Term)
		e.hashAppend(IfRef(h), e.bseqOf(p))
		return Tuple{SlLen(p), NilIface}, true
	}
	// context values: WithValue creates a fresh context object remembering its key and value (ghost)
	goModels["context.Background"] = func(e *Exec, c *ssa.CallCommon, a []Val, in ssa.Instruction) (Val, bool) {
		e.trust("context.Background / WithValue / Value: a context made by WithValue(parent, k, v) answers Value(k) with v (other keys: arbitrary)")
		return MkIface(IntLit(e.P.symbolID("tid.context.backgroundCtx")), e.allocRef("ctx")), true
	}
	goModels["context.WithValue"] = func(e *Exec, c *ssa.CallCommon, a []Val, in ssa.Instruction) (Val, bool) {
		e.trust("context.Background / WithValue / Value: a context made by WithValue(parent, k, v) answers Value(k) with v (other keys: arbitrary)")
		r := e.allocRef("ctx")
		e.heapSet("GH.ctxkey", Store(e.heapGet("GH.ctxkey", "(Array Int Iface)"), r, a[1].(*Term)))
		e.heapSet("GH.ctxval", Store(e.heapGet("GH.ctxval", "(Array Int Iface)"), r, a[2].(*Term)))
		return MkIface(IntLit(e.P.symbolID("tid.context.valueCtx")), r), true
	}
	goModels["(context.Context).Value"] = func(e *Exec, c *ssa.CallCommon, a []Val, in ssa.Instruction) (Val, bool) {
		e.trust("context.Background / WithValue / Value: a context made by WithValue(parent, k, v) answers Value(k) with v (other keys: arbitrary)")
		ref := IfRef(a[0].(*Term))
		k := e.ghGet("GH.ctxkey", "(Array Int Iface)", ref)
		v := e.ghGet("GH.ctxval", "(Array Int Iface)", ref)
		other := e.vc.Fresh("ctxother", SIface)
		// keys are compared as interface values: same dynamic type and (for string keys) equal strings
		q := a[1].(*Term)
		strTag := IntLit(typeID(types.Typ[types.String]))
		bs := ArraySort(SInt, SStr)
		bh := e.heapGet(boxHeapName(types.Typ[types.String]), bs)
		keyEq := And(Eq(IfTag(k), IfTag(q)), Or(Eq(IfRef(k), IfRef(q)), And(Eq(IfTag(q), strTag), Eq(Select(bh, IfRef(k)), Select(bh, IfRef(q))))))
		return e.vc.Define("ctxv", Ite(And(Eq(IfTag(a[0].(*Term)), IntLit(e.P.symbolID("tid.context.valueCtx"))), keyEq), v, other)), true
	}
	goModels["unicode/utf16.Encode"] = func(e *Exec, c *ssa.CallCommon, a []Val, in ssa.Instruction) (Val, bool) {
		e.trust("unicode/utf16.Encode is the uninterpreted function utf16.arr / utf16.len of the rune contents (at most two units per rune)")
		rs := a[0].(*Term)
		arr := e.backingCanon(rs, types.Typ[types.Rune])
		r := e.allocRef("utf16")
		ln := e.vc.Define("nunits", App("utf16.len", BV(64), arr, SlOff(rs), SlLen(rs)))
		e.vc.Assume(True, And(SGe(ln, bv64zero), SLe(ln, BVAdd(SlLen(rs), SlLen(rs)))))
		n, hs := elemHeap(types.Typ[types.Uint16])
		e.heapSet(n, Store(e.heapGet(n, hs), r, App("utf16.arr", ArraySort(BV(64), BV(16)), arr, SlOff(rs), SlLen(rs))))
		return MkSlice(r, bv64zero, ln, ln), true
	}
	goModels["(*github.com/jcmturner/rpc/v2/mstypes.RPCSID).String"] = func(e *Exec, c *ssa.CallCommon, a []Val, in ssa.Instruction) (Val, bool) {
		e.trust("mstypes.RPCSID.String is a deterministic function of the SID (uninterpreted function of its fields and sub-authorities)")
		p, ok := a[0].(*Ptr)
		if !ok {
			return nil, false
		}
		ws := e.silent
		sv := e.load(p)
		e.silent = ws
		st, ok2 := sv.(*Term)
		if !ok2 {
			return nil, false
		}
		r0 := e.sidString(st)
		if r0 == nil {
			return nil, false
		}
		r := e.vc.Define("sidstr", r0)
		e.vc.Assume(True, App("str_ok", SBool, r))
		return r, true
	}
	goModels["(github.com/jcmturner/rpc/v2/mstypes.FileTime).Time"] = func(e *Exec, c *ssa.CallCommon, a []Val, in ssa.Instruction) (Val, bool) {
		e.trust("mstypes.FileTime.Time is a deterministic function of the two 32-bit words (spec function filetime)")
		st, ok := a[0].(*Term)
		t := e.P.lookupType("github.com/jcmturner/rpc/v2/mstypes.FileTime")
		if !ok || t == nil {
			return nil, false
		}
		si := structInfo(t)
		if len(si.Fields) != 2 {
			return nil, false
		}
		r := e.vc.Define("ft", App("filetime", STime, Resize(FieldSel(si, st, 0), 64, false), Resize(FieldSel(si, st, 1), 64, false)))
		e.vc.Assume(True, App("time_ok", SBool, r))
		return r, true
	}
	goModels["(hash.Hash).Size"] = func(e *Exec, c *ssa.CallCommon, a []Val, in ssa.Instruction) (Val, bool) {
		return App("hsize", BV(64), IfRef(a[0].(*Term))), true
	}
	goModels["(hash.Hash).Reset"] = func(e *Exec, c *ssa.CallCommon, a []Val, in ssa.Instruction) (Val, bool) {
		ref := IfRef(a[0].(*Term))
		e.heapSet("GH.hdata", Store(e.heapGet("GH.hdata", "(Array Int BSeq)"), ref, Sym("seqempty", "BSeq")))
		e.root.hashEmpty[ref.String()] = true
		return nil, true
	}
	goModels["io.Copy"] = func(e *Exec, c *ssa.CallCommon, a []Val, in ssa.Instruction) (Val, bool) {
		// hash <- bytes.Reader
		mi, ok := c.Args[1].(*ssa.MakeInterface)
		if !ok || shortName(types.TypeString(mi.X.Type(), nil)) != "*bytes.Reader" {
			return nil, false
		}
		isHash := shortName(types.TypeString(c.Args[0].Type(), nil)) == "hash.Hash"
		if ci, ok := c.Args[0].(*ssa.ChangeInterface); ok && shortName(types.TypeString(ci.X.Type(), nil)) == "hash.Hash" {
			isHash = true
		}
		if !isHash {
			return nil, false
		}
		e.trust("io.Copy(hash, *bytes.Reader) appends the reader's remaining bytes to the hashed data and returns (n, nil)")
		dst, src := a[0].(*Term), a[1].(*Term)
		rr := IfRef(src)
		ln, pos := e.rdGet(rr)
		seq := e.ghGet("GH.rdseq", "(Array Int BSeq)", rr)
		var chunk *Term
		if pos.IsLit() && pos.Lit.Sign() == 0 {
			chunk = seq
		} else {
			chunk = App("seqsub", "BSeq", seq, pos, ln)
		}
		e.hashAppend(IfRef(dst), chunk)
		e.rdSet(rr, nil, ln)
		return Tuple{BVSub(ln, pos), NilIface}, true
	}
	for _, bo := range []struct {
		name string
		big  bool
	}{{"bigEndian", true}, {"littleEndian", false}} {
		for _, w := range []int{16, 32, 64} {
			w, big := w, bo.big
			goModels["(encoding/binary."+bo.name+").Uint"+itoa(w)] = func(e *Exec, c *ssa.CallCommon, a []Val, in ssa.Instruction) (Val, bool) {
				return modelGetUint(e, a[1].(*Term), w, big), true
			}
			goModels["(encoding/binary."+bo.name+").PutUint"+itoa(w)] = func(e *Exec, c *ssa.CallCommon, a []Val, in ssa.Instruction) (Val, bool) {
				modelPutUint(e, a[1].(*Term), a[2].(*Term), w, big)
				return nil, true
			}
		}
	}
	// the same through the ByteOrder interface when the dynamic type is not known on the path (an order chosen by a
	// conditional): both layouts, selected by the tag
	for _, w := range []int{16, 32, 64} {
		w := w
		goModels["(encoding/binary.ByteOrder).Uint"+itoa(w)] = func(e *Exec, c *ssa.CallCommon, a []Val, in ssa.Instruction) (Val, bool) {
			it, ok := a[0].(*Term)
			if !ok || IfTag(it).IsLit() {
				return nil, false
			}
			e.trust("a ByteOrder value that is not binary.BigEndian is binary.LittleEndian")
			return Ite(e.orderIsBig(it), modelGetUint(e, a[1].(*Term), w, true), modelGetUint(e, a[1].(*Term), w, false)), true
		}
		goModels["(encoding/binary.ByteOrder).PutUint"+itoa(w)] = func(e *Exec, c *ssa.CallCommon, a []Val, in ssa.Instruction) (Val, bool) {
			it, ok := a[0].(*Term)
			if !ok || IfTag(it).IsLit() {
				return nil, false
			}
			e.trust("a ByteOrder value that is not binary.BigEndian is binary.LittleEndian")
			b := a[1].(*Term)
			n, hs := elemHeap(types.Typ[types.Byte])
			h0 := e.heapGet(n, hs)
			modelPutUint(e, b, a[2].(*Term), w, true)
			hb := e.heapGet(n, hs)
			e.heapSet(n, h0)
			modelPutUint(e, b, a[2].(*Term), w, false)
			hl := e.heapGet(n, hs)
			e.heapSet(n, Ite(e.orderIsBig(it), hb, hl))
			return nil, true
		}
	}
	deferModels = map[string]func(e *Exec, d deferRec){
		"(*sync.RWMutex).Unlock":  func(e *Exec, d deferRec) { e.lockOp(d.args[0], 2, false, d.g) },
		"(*sync.RWMutex).RUnlock": func(e *Exec, d deferRec) { e.lockOp(d.args[0], 1, false, d.g) },
		"(*sync.Mutex).Unlock":    func(e *Exec, d deferRec) { e.lockOp(d.args[0], 2, false, d.g) },
	}
}

func itoa(n int) string {
	switch n {
	case 16:
		return "16"
	case 32:
		return "32"
	}
	return "64"
}

func (e *Exec) trust(s string) { e.vc.Trusted["model: "+s] = true }

func modelIdentity0(e *Exec, c *ssa.CallCommon, a []Val, in ssa.Instruction) (Val, bool) {
	e.trust("time.Time.UTC/Local identity on instants (locations and monotonic readings ignored)")
	return a[0], true
}

// sidString: the model of mstypes.RPCSID.String, an uninterpreted function of the SID value and of the
// contents of its sub-authority array (contract builtin sidstr(x)).
func (e *Exec) sidString(st *Term) *Term {
	t := e.P.lookupType("github.com/jcmturner/rpc/v2/mstypes.RPCSID")
	if t == nil {
		return nil
	}
	si := structInfo(t)
	var sub *Term
	for i, f := range si.Fields {
		if f.Name == "SubAuthority" {
			sub = FieldSel(si, st, i)
		}
	}
	if sub == nil {
		return nil
	}
	arr := e.backingCanon(sub, types.Typ[types.Uint32])
	e.declareRaw("(declare-fun uf.sidstring (" + si.Sort + " (Array (_ BitVec 64) (_ BitVec 32))) Str)")
	return App("uf.sidstring", SStr, st, arr)
}

func modelNow(e *Exec, c *ssa.CallCommon, a []Val, in ssa.Instruction) (Val, bool) {
	e.trust("time.Now returns an arbitrary non-decreasing instant between years 1970 and 9999 (ghost clock)")
	t := e.vc.Fresh("now", STime)
	lo := BVMul(BVLitI(unixEpochSec, 128), BVLitI(1000000000, 128))
	hi := BVMul(BVLitI(unixEpochSec+253402300800, 128), BVLitI(1000000000, 128))
	e.vc.Assume(True, And(SGe(t, lo), SLe(t, hi)))
	if e.root.lastNow != nil {
		e.vc.Assume(True, SGe(t, e.root.lastNow))
	}
	e.root.lastNow = t
	// the ghost clock (contract identifier "clock") is the latest reading; it never goes back
	e.clock0()
	e.vc.Assume(True, SGe(t, e.heapGet("GH.clock", STime)))
	e.heapSet("GH.clock", t)
	// now#k in contracts numbers the readings of the function's own body and those exposed by callee
	// contracts, not the ones inside inlined helpers (e.g. the timestamp of an error value)
	if (!e.silent || c == nil) && len(e.inlineStack) == 0 {
		e.root.nows = append(e.root.nows, t)
	}
	return t, true
}

func timeSub(e *Exec, a, b *Term) *Term {
	e.trust("time.Time.Sub exact with saturation to int64 nanoseconds")
	d := e.vc.Define("dt", BVSub(a, b))
	maxD := BVLit(mask(63), 128)
	minD := BVNeg(BVAdd(maxD, BVLitI(1, 128)))
	r := Ite(SGt(d, maxD), BVLit(mask(63), 64), Ite(SLt(d, minD), BVLit(new(bigInt).Lsh(one, 63), 64), Resize(d, 64, true)))
	return e.vc.Define("dur", r)
}

func modelTimeSub(e *Exec, c *ssa.CallCommon, a []Val, in ssa.Instruction) (Val, bool) {
	return timeSub(e, a[0].(*Term), a[1].(*Term)), true
}

func modelTimeAdd(e *Exec, c *ssa.CallCommon, a []Val, in ssa.Instruction) (Val, bool) {
	e.trust("time.Time.Add exact on 128-bit instants")
	return e.vc.Define("tm", BVAdd(a[0].(*Term), Resize(a[1].(*Term), 128, true))), true
}

// bytesEq builds: r <=> len(a)=len(b) and contents equal.
func (e *Exec) bytesEq(a, b *Term) *Term {
	el := types.Typ[types.Byte]
	aa, ba := e.vc.Define("ea", e.backing(a, el)), e.vc.Define("eb", e.backing(b, el))
	k := Sym("k", BV(64))
	body := Implies(And(SGe(k, bv64zero), SLt(k, SlLen(a))), Eq(Select(aa, BVAdd(SlOff(a), k)), Select(ba, BVAdd(SlOff(b), k))))
	r := e.vc.Fresh("beq", SBool)
	e.vc.Assume(True, Eq(r, And(Eq(SlLen(a), SlLen(b)), Forall([][2]string{{"k", BV(64)}}, body))))
	// the same fact on the sequence abstraction (Seq values are equal iff they have the same bytes)
	e.vc.Assume(True, Eq(r, Eq(App("bseq.of", "BSeq", aa, SlOff(a), SlLen(a)), App("bseq.of", "BSeq", ba, SlOff(b), SlLen(b)))))
	return r
}

func modelBytesEqual(e *Exec, c *ssa.CallCommon, a []Val, in ssa.Instruction) (Val, bool) {
	e.trust("bytes.Equal / hmac.Equal: true iff equal length and equal contents")
	return e.bytesEq(a[0].(*Term), a[1].(*Term)), true
}

func modelNewError(e *Exec, c *ssa.CallCommon, a []Val, in ssa.Instruction) (Val, bool) {
	e.trust("errors.New / fmt.Errorf return a non-nil error")
	r := e.havocTerm("err", c.Signature().Results().At(0).Type())
	e.vc.Assume(True, Neq(IfTag(r), IntLit(0)))
	// distinguishable from repository error types
	e.vc.Assume(True, Eq(IfTag(r), IntLit(typeID(types.NewPointer(errorsStringType(e.P))))))
	return r, true
}

func errorsStringType(p *Program) types.Type {
	for _, pk := range p.SSA.AllPackages() {
		if pk.Pkg.Path() == "errors" {
			if o := pk.Pkg.Scope().Lookup("errorString"); o != nil {
				return o.Type()
			}
		}
	}
	return types.Typ[types.Int]
}

func modelGetUint(e *Exec, b *Term, w int, big bool) *Term {
	e.trust("encoding/binary ByteOrder.Uint*/PutUint* exact (panic when the slice is short)")
	n := int64(w / 8)
	e.check("bounds", SGe(SlLen(b), BVLitI(n, 64)), "binary.ByteOrder access beyond slice length")
	arr := e.vc.Define("ba", e.backing(b, types.Typ[types.Byte]))
	var r *Term
	for i := int64(0); i < n; i++ {
		idx := i
		if !big {
			idx = n - 1 - i
		}
		by := Select(arr, BVAdd(SlOff(b), BVLitI(idx, 64)))
		if r == nil {
			r = by
		} else {
			r = Concat(r, by)
		}
	}
	return e.vc.Define("u", r)
}

func modelPutUint(e *Exec, b *Term, v *Term, w int, big bool) {
	e.trust("encoding/binary ByteOrder.Uint*/PutUint* exact (panic when the slice is short)")
	n := int64(w / 8)
	e.check("bounds", SGe(SlLen(b), BVLitI(n, 64)), "binary.ByteOrder access beyond slice length")
	arr := e.backing(b, types.Typ[types.Byte])
	for i := int64(0); i < n; i++ {
		// byte i of the big-endian representation
		hi := w - 1 - int(i)*8
		by := Extract(v, hi, hi-7)
		idx := i
		if !big {
			idx = n - 1 - i
		}
		arr = Store(arr, BVAdd(SlOff(b), BVLitI(idx, 64)), by)
	}
	e.setBacking(SlRef(b), types.Typ[types.Byte], e.vc.Define("ba", arr))
}

// ---------- locks (lockset ghost state; rules used by C02/C11) ----------

func lockKey(v Val) string {
	p, ok := v.(*Ptr)
	if !ok {
		return "?"
	}
	s := ""
	switch p.Kind {
	case PHeap:
		s = "H:" + p.Ref.String()
	case PCell:
		s = "C"
	case PGlobal:
		s = "G:" + p.Global.Name()
	}
	for _, pe := range p.Path {
		s += "." + itoa2(pe.Field)
	}
	return s
}

func itoa2(n int) string {
	const digits = "0123456789"
	if n == 0 {
		return "0"
	}
	s := ""
	for n > 0 {
		s = string(digits[n%10]) + s
		n /= 10
	}
	return s
}

func modelLock(level int, acquire bool) goModel {
	return func(e *Exec, c *ssa.CallCommon, a []Val, in ssa.Instruction) (Val, bool) {
		e.lockOp(a[0], level, acquire, e.g)
		return nil, true
	}
}

// GuardInfo: a "guards" declaration of a type spec: the mutex field Field of type TypeName protects the maps
// reachable from the listed fields; Inv (optional) is the lock invariant over "self".
type GuardInfo struct {
	TypeName, Field string
	Heaps           map[string]string // guarded heaps (map heaps MP./MV.) -> sort
	Maps            []*types.Map      // the guarded map types
	Fields          map[string]int    // guarded non-map fields of the same object (name -> field index)
	ContT           types.Type
	LockIdx         int
	Inv             *CExpr
	InvText         string
}

// guardOfLock finds the guard declaration for a lock pointer &obj.field.
func (e *Exec) guardOfLock(lock Val) *GuardInfo {
	p, ok := lock.(*Ptr)
	if !ok || len(p.Path) == 0 {
		return nil
	}
	pe := p.Path[len(p.Path)-1]
	if pe.Idx != nil || pe.ContT == nil {
		return nil
	}
	st, ok := types.Unalias(pe.ContT).Underlying().(*types.Struct)
	if !ok || pe.Field >= st.NumFields() {
		return nil
	}
	return e.P.guardFor(pe.ContT, st.Field(pe.Field).Name())
}

func (p *Program) guardFor(contT types.Type, field string) *GuardInfo {
	p.mu.Lock()
	defer p.mu.Unlock()
	p.loadGuards()
	return p.guards[shortName(types.TypeString(types.Unalias(contT), nil))+"#"+field]
}

// fieldGuard: the guard declaration protecting field idx of container type contT (nil when unguarded).
func (p *Program) fieldGuard(contT types.Type, idx int) *GuardInfo {
	p.mu.Lock()
	defer p.mu.Unlock()
	p.loadGuards()
	tn := shortName(types.TypeString(types.Unalias(contT), nil))
	for _, g := range p.guardList {
		if g.TypeName != tn {
			continue
		}
		for _, i := range g.Fields {
			if i == idx {
				return g
			}
		}
	}
	return nil
}

// guardsOfHeap: the guard declarations protecting a map heap.
func (p *Program) guardsOfHeap(hn string) []*GuardInfo {
	p.mu.Lock()
	defer p.mu.Unlock()
	p.loadGuards()
	var out []*GuardInfo
	for _, g := range p.guardList {
		if _, ok := g.Heaps[hn]; ok {
			out = append(out, g)
		}
	}
	return out
}

func (p *Program) loadGuards() {
	if p.guards != nil {
		return
	}
	p.guards = map[string]*GuardInfo{}
	var names []string
	for n := range p.TypeSpecs {
		names = append(names, n)
	}
	sort.Strings(names)
	for _, n := range names {
		ts := p.TypeSpecs[n]
		gd, ok := ts.Attrs["guards"]
		if !ok {
			continue
		}
		parts := strings.SplitN(gd, "::", 2)
		if len(parts) != 2 {
			continue
		}
		T := p.lookupType(ts.Name)
		if T == nil {
			continue
		}
		st, ok := types.Unalias(T).Underlying().(*types.Struct)
		if !ok {
			continue
		}
		g := &GuardInfo{TypeName: shortName(types.TypeString(types.Unalias(T), nil)), Field: strings.TrimSpace(parts[0]), Heaps: map[string]string{}, Fields: map[string]int{}, ContT: T, LockIdx: -1}
		for i := 0; i < st.NumFields(); i++ {
			if st.Field(i).Name() == g.Field {
				g.LockIdx = i
			}
		}
		for _, f := range strings.Split(parts[1], ",") {
			f = strings.TrimSpace(f)
			for i := 0; i < st.NumFields(); i++ {
				if st.Field(i).Name() == f {
					if _, isMap := types.Unalias(st.Field(i).Type()).Underlying().(*types.Map); !isMap {
						g.Fields[f] = i
					}
					all := map[string]string{}
					reachableHeaps(st.Field(i).Type(), all, map[string]bool{})
					for k, v := range all {
						if strings.HasPrefix(k, "MP.") || strings.HasPrefix(k, "MV.") {
							g.Heaps[k] = v
						}
					}
					reachableMaps(st.Field(i).Type(), &g.Maps, map[string]bool{})
				}
			}
		}
		if inv, ok := ts.Attrs["lockinv"]; ok {
			ip := strings.SplitN(inv, "::", 2)
			if len(ip) == 2 && strings.TrimSpace(ip[0]) == g.Field {
				g.InvText = strings.TrimSpace(ip[1])
				g.Inv, _ = ParseCExpr(g.InvText)
			}
		}
		p.guards[g.TypeName+"#"+g.Field] = g
		p.guardList = append(p.guardList, g)
	}
}

// heldGet: current level of the lock with key k (symbolic entry level when the function has not touched it yet).
func (e *Exec) heldGet(k string, gi *GuardInfo) *Term {
	if v, ok := e.st.held[k]; ok {
		return v
	}
	if e.root.held0 == nil {
		e.root.held0 = map[string]*Term{}
		e.root.heldInfo = map[string]*GuardInfo{}
	}
	if v, ok := e.root.held0[k]; ok {
		return v
	}
	// a function whose contract does not mention held() is entered with none of the declared locks held
	// (listed assumption); otherwise the entry level is symbolic and constrained by its preconditions
	mentions := false
	if e.con != nil {
		for _, rq := range e.con.Requires {
			if strings.Contains(rq.Text, "held(") {
				mentions = true
			}
		}
	}
	if !mentions {
		e.vc.Trusted["locks: a function without a held() precondition is entered with none of the declared locks held"] = true
		e.root.held0[k] = IntLit(0)
		if gi != nil {
			e.root.heldInfo[k] = gi
		}
		return e.root.held0[k]
	}
	v := e.vc.Fresh("held0", SInt)
	e.vc.Assume(True, And(IntLe(IntLit(0), v), IntLe(v, IntLit(2))))
	e.root.held0[k] = v
	if gi != nil {
		e.root.heldInfo[k] = gi
	}
	return v
}

// lockSelfEnv: contract environment with "self" bound to the object holding the lock.
func (e *Exec) lockSelfEnv(lock Val) *CEnv {
	p := lock.(*Ptr)
	owner := *p
	owner.Path = append([]PathEl(nil), p.Path[:len(p.Path)-1]...)
	contT := p.Path[len(p.Path)-1].ContT
	owner.Typ = contT
	owner.NonNil = true
	env := &CEnv{e: e, vars: map[string]CV{}, st: e.st}
	if e.fn.Pkg != nil {
		env.pkg = e.fn.Pkg.Pkg
	}
	env.vars["self"] = CV{V: &owner, T: types.NewPointer(contT)}
	return env
}

// lockOp updates the lockset and applies the lock-invariant rule: at an acquisition the state protected by the
// lock is arbitrary (other goroutines may have changed it) up to the declared lock invariant; at a release of the
// write lock the invariant must hold again.
func (e *Exec) lockOp(lock Val, level int, acquire bool, g *Term) {
	// a deferred release runs under the guard it was registered with
	saveG := e.g
	if g != e.g {
		e.g = And(e.g, g)
	}
	defer func() { e.g = saveG }()
	k := lockKey(lock)
	gi := e.guardOfLock(lock)
	cur := e.heldGet(k, gi)
	if gi != nil {
		if e.root.heldInfo == nil {
			e.root.held0 = map[string]*Term{}
			e.root.heldInfo = map[string]*GuardInfo{}
		}
		e.root.heldInfo[k] = gi
	}
	if acquire {
		if e.onAcquire != nil {
			e.onAcquire(e, lock, level)
		}
		if gi != nil {
			e.check("lock", Eq(cur, IntLit(0)), "lock "+gi.TypeName+"."+gi.Field+" is not already held at this acquisition (sync mutexes are not reentrant)")
			e.havocGuarded(lock, gi)
			e.vc.Trusted["concurrency: state guarded by a declared lock is arbitrary (up to the lock invariant) at every acquisition; goroutines are not interleaved otherwise"] = true
		}
		e.st.held[k] = Ite(g, IntLit(int64(level)), cur)
		if gi != nil {
			snap := e.st.clone()
			snap.atlock = nil
			e.st.atlock = snap
		}
	} else {
		if gi != nil && !e.silent {
			e.check("lock", Eq(cur, IntLit(int64(level))), "lock "+gi.TypeName+"."+gi.Field+" is held at the level being released")
			if gi.Inv != nil && level == 2 {
				if t, err := e.lockSelfEnv(lock).EvalBool(gi.Inv); err == nil {
					e.vc.ObligeAll("lock", "invariant:"+trunc(e.curLine(), 50), "lock invariant of "+gi.TypeName+"."+gi.Field+" holds at release: "+gi.InvText, e.curPos(), e.g, t, e.root.inputs)
				} else {
					o := e.vc.Oblige("lock", "invariant:"+trunc(e.curLine(), 50), "cannot evaluate lock invariant: "+err.Error(), e.curPos(), e.g, False, nil)
					o.Status = "unknown"
				}
			}
		}
		e.st.held[k] = Ite(g, IntLit(0), cur)
	}
}

// guardedAccess: an access to a map of a guarded type needs the guarding lock (some instance of it) at the level.
func (e *Exec) guardedAccess(mpHeap string, write bool, what string) {
	if e.silent {
		return
	}
	gis := e.P.guardsOfHeap(mpHeap)
	if len(gis) == 0 {
		return
	}
	level := int64(1)
	if write {
		level = 2
	}
	var alts []*Term
	keys := map[string]bool{}
	for k := range e.st.held {
		keys[k] = true
	}
	for k := range e.root.held0 {
		keys[k] = true
	}
	var ks []string
	for k := range keys {
		ks = append(ks, k)
	}
	sort.Strings(ks)
	for _, k := range ks {
		info := e.root.heldInfo[k]
		if info == nil {
			continue
		}
		for _, gi := range gis {
			if gi == info {
				alts = append(alts, IntLe(IntLit(level), e.heldGet(k, info)))
			}
		}
	}
	goal := Or(alts...)
	mode := "read"
	if write {
		mode = "write"
	}
	e.check("lock", goal, what+" of a map guarded by "+gis[0].TypeName+"."+gis[0].Field+" needs the lock held for "+mode)
}

func (e *Exec) lockCheck(p *Ptr, write bool) {
	if e.onAccess != nil && !e.silent {
		e.onAccess(e, p, write)
	}
	// fields declared as guarded by a mutex of the same object
	if e.silent || p.Kind != PHeap || len(p.Path) == 0 || p.Path[0].Idx != nil || p.Path[0].ContT == nil {
		return
	}
	gi := e.P.fieldGuard(p.Path[0].ContT, p.Path[0].Field)
	if gi == nil || gi.LockIdx < 0 {
		return
	}
	// an object this function allocated itself is being initialised, not shared yet (publication is not tracked)
	if b, _, ok := refBase(p.Ref); ok && strings.HasPrefix(b, "ac!") {
		e.vc.Trusted["locks: fields of an object allocated by the function itself are initialised without its lock (the object is taken as unpublished while the function builds it)"] = true
		return
	}
	lock := &Ptr{Kind: PHeap, Ref: p.Ref, Base: p.Base, Typ: p.Typ, Path: []PathEl{{Field: gi.LockIdx, ContT: p.Path[0].ContT}}}
	k := lockKey(lock)
	level := int64(1)
	mode := "read"
	if write {
		level, mode = 2, "write"
	}
	cur := e.heldGet(k, gi)
	e.check("lock", IntLe(IntLit(level), cur), "access to a field guarded by "+gi.TypeName+"."+gi.Field+" needs the lock held for "+mode)
}

// newHash: a fresh hash object (interface value) with digest size sz, constructor fn and (for HMAC) key.
func (e *Exec) newHash(sz, fn, key *Term) *Term {
	e.trust("hash constructors (sha1/sha256/sha512/md5/md4.New, hmac.New) return a non-nil hash.Hash with the documented digest size")
	r := e.allocRef("hash")
	e.vc.Assume(True, Eq(App("hsize", BV(64), r), sz))
	e.heapSet("GH.hfn", Store(e.heapGet("GH.hfn", "(Array Int Int)"), r, fn))
	if key != nil {
		e.heapSet("GH.hkey", Store(e.heapGet("GH.hkey", "(Array Int BSeq)"), r, key))
	}
	e.heapSet("GH.hkeyed", Store(e.heapGet("GH.hkeyed", "(Array Int Bool)"), r, Bool(key != nil)))
	e.heapSet("GH.hdata", Store(e.heapGet("GH.hdata", "(Array Int BSeq)"), r, Sym("seqempty", "BSeq")))
	if e.root.hashEmpty == nil {
		e.root.hashEmpty = map[string]bool{}
	}
	e.root.hashEmpty[r.String()] = true
	return MkIface(IntLit(typeID(types.Typ[types.UnsafePointer])+7), r)
}

func (e *Exec) hashAppend(ref *Term, chunk *Term) {
	if e.root.hashEmpty == nil {
		e.root.hashEmpty = map[string]bool{}
	}
	old := e.ghGet("GH.hdata", "(Array Int BSeq)", ref)
	var nd *Term
	if e.root.hashEmpty[ref.String()] {
		nd = chunk
	} else {
		nd = App("seqcat", "BSeq", old, chunk)
	}
	e.root.hashEmpty[ref.String()] = false
	e.heapSet("GH.hdata", Store(e.heapGet("GH.hdata", "(Array Int BSeq)"), ref, nd))
}

// bseqOf: the contents of a byte slice as a sequence value.
func (e *Exec) bseqOf(s *Term) *Term {
	return App("bseq.of", "BSeq", e.vc.Define("sarr", e.backingCanon(s, types.Typ[types.Byte])), SlOff(s), SlLen(s))
}

// ---------- bytes.Buffer and encoding/binary.Read/Write over it (exact on the real struct fields) ----------

func (e *Exec) bufferFields(p *Program) (si *StructInfo, iBuf, iOff int, t types.Type) {
	t = p.lookupType("bytes.Buffer")
	si = structInfo(t)
	iBuf, iOff = -1, -1
	for i, f := range si.Fields {
		if f.Name == "buf" {
			iBuf = i
		}
		if f.Name == "off" {
			iOff = i
		}
	}
	return
}

func init() {
	goModels["bytes.NewBuffer"] = func(e *Exec, c *ssa.CallCommon, a []Val, in ssa.Instruction) (Val, bool) {
		e.trust("bytes.Buffer: NewBuffer/Bytes/Len/Write exact on the buffer contents; binary.Read/Write of fixed-size integers and byte slices over a *bytes.Buffer exact")
		si, iBuf, iOff, t := e.bufferFields(e.P)
		if iBuf < 0 || iOff < 0 {
			return nil, false
		}
		r := e.allocRef("buf")
		v := FieldUpd(si, FieldUpd(si, zeroOf(t), iBuf, a[0].(*Term)), iOff, bv64zero)
		n, hs := objHeap(t)
		e.heapSet(n, Store(e.heapGet(n, hs), r, v))
		return &Ptr{Kind: PHeap, Ref: r, Base: t, Typ: t, NonNil: true}, true
	}
	goModels["(*bytes.Buffer).Bytes"] = func(e *Exec, c *ssa.CallCommon, a []Val, in ssa.Instruction) (Val, bool) {
		b, off, ok := e.bufState(a[0])
		if !ok {
			return nil, false
		}
		return e.vc.Define("bb", MkSlice(SlRef(b), BVAdd(SlOff(b), off), BVSub(SlLen(b), off), BVSub(SlCap(b), off))), true
	}
	goModels["(*bytes.Buffer).Len"] = func(e *Exec, c *ssa.CallCommon, a []Val, in ssa.Instruction) (Val, bool) {
		b, off, ok := e.bufState(a[0])
		if !ok {
			return nil, false
		}
		return BVSub(SlLen(b), off), true
	}
	goModels["(*bytes.Buffer).Write"] = func(e *Exec, c *ssa.CallCommon, a []Val, in ssa.Instruction) (Val, bool) {
		p := a[1].(*Term)
		if !e.bufAppend(a[0], e.vc.Define("src", e.backing(p, types.Typ[types.Byte])), SlOff(p), SlLen(p)) {
			return nil, false
		}
		return Tuple{SlLen(p), NilIface}, true
	}
	goModels["(*bytes.Buffer).WriteByte"] = func(e *Exec, c *ssa.CallCommon, a []Val, in ssa.Instruction) (Val, bool) {
		arr := Store(ConstArr(ArraySort(BV(64), BV(8)), BVLitI(0, 8)), bv64zero, a[1].(*Term))
		if !e.bufAppend(a[0], arr, bv64zero, BVLitI(1, 64)) {
			return nil, false
		}
		return NilIface, true
	}
	goModels["encoding/binary.Write"] = modelBinaryWrite
	goModels["encoding/binary.Read"] = modelBinaryRead
}

// bufState returns the buf slice and read offset of a *bytes.Buffer value.
func (e *Exec) bufState(v Val) (*Term, *Term, bool) {
	p, ok := v.(*Ptr)
	if !ok {
		return nil, nil, false
	}
	si, iBuf, iOff, _ := e.bufferFields(e.P)
	if iBuf < 0 {
		return nil, nil, false
	}
	sv := e.toTerm(e.quietLoad(p), p.Typ)
	b := e.vc.Define("bbuf", FieldSel(si, sv, iBuf))
	off := e.vc.Define("boff", FieldSel(si, sv, iOff))
	// representation invariant of bytes.Buffer
	e.vc.Assume(e.g, And(SGe(off, bv64zero), SLe(off, SlLen(b)), App("slice_ok", SBool, b, e.st.ac)))
	return b, off, true
}

func (e *Exec) bufSet(v Val, buf, off *Term) {
	p := v.(*Ptr)
	si, iBuf, iOff, _ := e.bufferFields(e.P)
	sv := e.toTerm(e.quietLoad(p), p.Typ)
	nv := FieldUpd(si, sv, iBuf, buf)
	if off != nil {
		nv = FieldUpd(si, nv, iOff, off)
	}
	s := e.silent
	e.silent = true
	np := *p
	np.NonNil = true
	e.store(&np, nv)
	e.silent = s
}

// bufAppend appends n bytes src[soff..] to the buffer (always into a fresh backing array: bytes.Buffer owns its storage).
func (e *Exec) bufAppend(v Val, src, soff, n *Term) bool {
	b, _, ok := e.bufState(v)
	if !ok {
		return false
	}
	el := types.Typ[types.Byte]
	oldArr := e.vc.Define("old", e.backing(b, el))
	base := e.copyInto(ConstArr(oldArr.Sort, BVLitI(0, 8)), bv64zero, oldArr, SlOff(b), SlLen(b), "bufc")
	moved := e.copyInto(base, SlLen(b), src, soff, n, "bufa")
	r := e.allocRef("bufarr")
	e.setBacking(r, el, moved)
	nl := e.vc.Define("nlen", BVAdd(SlLen(b), n))
	e.vc.Assume(e.g, SLe(nl, maxLen))
	e.bufSet(v, MkSlice(r, bv64zero, nl, nl), nil)
	return true
}

var fixedIntKinds = map[types.BasicKind]int{types.Int8: 8, types.Uint8: 8, types.Int16: 16, types.Uint16: 16, types.Int32: 32, types.Uint32: 32, types.Int64: 64, types.Uint64: 64}

// orderIsBig: the ByteOrder interface value is binary.BigEndian (tag comparison; the only other
// implementation used is binary.LittleEndian).
func (e *Exec) orderIsBig(order *Term) *Term {
	bt := e.P.lookupType("encoding/binary.bigEndian")
	if bt == nil {
		return e.vc.Fresh("isbig", SBool)
	}
	return Eq(IfTag(order), IntLit(typeID(bt)))
}

func bufferOf(e *Exec, w Val, sv ssa.Value) (Val, bool) {
	mi, ok := sv.(*ssa.MakeInterface)
	if !ok {
		return nil, false
	}
	if shortName(types.TypeString(mi.X.Type(), nil)) != "*bytes.Buffer" {
		return nil, false
	}
	return e.val(mi.X), true
}

func modelBinaryWrite(e *Exec, c *ssa.CallCommon, a []Val, in ssa.Instruction) (Val, bool) {
	buf, ok := bufferOf(e, a[0], c.Args[0])
	if !ok {
		return nil, false
	}
	mi, ok := c.Args[2].(*ssa.MakeInterface)
	if !ok {
		return nil, false
	}
	dt := types.Unalias(mi.X.Type())
	isBig := e.orderIsBig(a[1].(*Term))
	if bt, ok := dt.Underlying().(*types.Basic); ok {
		w, ok := fixedIntKinds[bt.Kind()]
		if !ok {
			return nil, false
		}
		v := e.term(mi.X)
		arr := ConstArr(ArraySort(BV(64), BV(8)), BVLitI(0, 8))
		n := w / 8
		for i := 0; i < n; i++ {
			hi := w - 1 - i*8
			by := Extract(v, hi, hi-7) // byte i of the big-endian form
			le := Extract(v, i*8+7, i*8)
			arr = Store(arr, BVLitI(int64(i), 64), Ite(isBig, by, le))
		}
		if !e.bufAppend(buf, e.vc.Define("enc", arr), bv64zero, BVLitI(int64(n), 64)) {
			return nil, false
		}
		return NilIface, true
	}
	if isByteSlice(dt) {
		p := e.term(mi.X)
		if !e.bufAppend(buf, e.vc.Define("src", e.backing(p, types.Typ[types.Byte])), SlOff(p), SlLen(p)) {
			return nil, false
		}
		return NilIface, true
	}
	return nil, false
}

func modelBinaryRead(e *Exec, c *ssa.CallCommon, a []Val, in ssa.Instruction) (Val, bool) {
	buf, ok := bufferOf(e, a[0], c.Args[0])
	if !ok {
		return nil, false
	}
	mi, ok := c.Args[2].(*ssa.MakeInterface)
	if !ok {
		return nil, false
	}
	pt, ok := types.Unalias(mi.X.Type()).Underlying().(*types.Pointer)
	if !ok {
		return nil, false
	}
	dst, ok := e.val(mi.X).(*Ptr)
	if !ok {
		return nil, false
	}
	b, off, ok := e.bufState(buf)
	if !ok {
		return nil, false
	}
	isBig := e.orderIsBig(a[1].(*Term))
	arr := e.vc.Define("rb", e.backing(b, types.Typ[types.Byte]))
	avail := e.vc.Define("avail", BVSub(SlLen(b), off))
	errT := e.havocTerm("err", c.Signature().Results().At(0).Type())
	base := BVAdd(SlOff(b), off)
	el := types.Unalias(pt.Elem())
	if bt, ok := el.Underlying().(*types.Basic); ok {
		w, ok := fixedIntKinds[bt.Kind()]
		if !ok {
			return nil, false
		}
		n := int64(w / 8)
		enough := e.vc.Define("enough", SGe(avail, BVLitI(n, 64)))
		var big, little *Term
		for i := int64(0); i < n; i++ {
			by := Select(arr, BVAdd(base, BVLitI(i, 64)))
			if big == nil {
				big, little = by, by
			} else {
				big = Concat(big, by)
				little = Concat(by, little)
			}
		}
		val := e.vc.Define("rd", Ite(isBig, big, little))
		cur := e.toTerm(e.quietLoad(dst), el)
		garbage := e.vc.Fresh("partial", cur.Sort)
		s := e.silent
		e.silent = true
		e.store(dst, Ite(enough, val, Ite(Eq(avail, bv64zero), cur, garbage)))
		e.silent = s
		noff := e.vc.Define("noff", Ite(enough, BVAdd(off, BVLitI(n, 64)), SlLen(b)))
		e.bufSet(buf, b, noff)
		e.vc.Assume(True, Eq(Eq(IfTag(errT), IntLit(0)), enough))
		return errT, true
	}
	if isByteSlice(el) {
		ds := e.toTerm(e.quietLoad(dst), el)
		n := SlLen(ds)
		enough := e.vc.Define("enough", SGe(avail, n))
		old := e.vc.Define("dold", e.backing(ds, types.Typ[types.Byte]))
		full := e.copyInto(old, SlOff(ds), arr, base, n, "rdb")
		partial := e.vc.Fresh("partial", old.Sort)
		k := Sym("k", BV(64))
		inR := And(SGe(k, SlOff(ds)), SLt(k, BVAdd(SlOff(ds), n)))
		e.vc.Assume(True, Forall([][2]string{{"k", BV(64)}}, Implies(Not(inR), Eq(Select(partial, k), Select(old, k))), Select(partial, k)))
		e.setBackingIf(And(Neq(SlRef(ds), IntLit(0)), SGt(n, bv64zero)), SlRef(ds), types.Typ[types.Byte], Ite(enough, full, partial))
		noff := e.vc.Define("noff", Ite(enough, BVAdd(off, n), SlLen(b)))
		e.bufSet(buf, b, noff)
		e.vc.Assume(True, Eq(Eq(IfTag(errT), IntLit(0)), enough))
		return errT, true
	}
	return nil, false
}

// ---------- byte readers with a ghost cursor (bytes.Reader, rpc/v2/mstypes.Reader) ----------
// Ghost heaps GH.rdlen / GH.rdpos (Array Int BV64) hold, per reader object, the number of bytes it was
// created over and the number consumed so far; a read of n bytes succeeds iff pos+n <= len.

const ghSort = "(Array Int (_ BitVec 64))"

func (e *Exec) rdGet(ref *Term) (ln, pos *Term) {
	return e.ghGet("GH.rdlen", ghSort, ref), e.ghGet("GH.rdpos", ghSort, ref)
}

// ghGet reads a ghost heap with read-over-write resolution (keeps literals such as a zero cursor visible).
func (e *Exec) ghGet(name, sort string, ref *Term) *Term {
	h := e.heapGet(name, sort)
	if e.vc.frozen > 0 {
		return Select(h, ref)
	}
	return e.canonArr(h, ref)
}

func (e *Exec) rdSet(ref, ln, pos *Term) {
	if ln != nil {
		e.heapSet("GH.rdlen", Store(e.heapGet("GH.rdlen", ghSort), ref, ln))
	}
	e.heapSet("GH.rdpos", Store(e.heapGet("GH.rdpos", ghSort), ref, pos))
}

func init() {
	goModels["bytes.NewReader"] = func(e *Exec, c *ssa.CallCommon, a []Val, in ssa.Instruction) (Val, bool) {
		e.trust("bytes.Reader / mstypes.Reader: a read of n bytes succeeds iff n bytes remain (ghost cursor); mstypes.Reader.ReadBytes(n) allocates n bytes")
		r := e.allocRef("rd")
		e.rdSet(r, SlLen(a[0].(*Term)), bv64zero)
		e.heapSet("GH.rdseq", Store(e.heapGet("GH.rdseq", "(Array Int BSeq)"), r, e.bseqOf(a[0].(*Term))))
		t := e.P.lookupType("bytes.Reader")
		return &Ptr{Kind: PHeap, Ref: r, Base: t, Typ: t, NonNil: true}, true
	}
	goModels["github.com/jcmturner/rpc/v2/mstypes.NewReader"] = func(e *Exec, c *ssa.CallCommon, a []Val, in ssa.Instruction) (Val, bool) {
		src := a[0].(*Term) // io.Reader interface
		ln, pos := e.rdGet(IfRef(src))
		r := e.allocRef("mrd")
		e.rdSet(r, e.vc.Define("rdlen", BVSub(ln, pos)), bv64zero)
		// contents: the source's byte sequence, read from the source's current position on
		e.heapSet("GH.rdseq", Store(e.heapGet("GH.rdseq", "(Array Int BSeq)"), r, e.ghGet("GH.rdseq", "(Array Int BSeq)", IfRef(src))))
		e.heapSet("GH.rdbase", Store(e.heapGet("GH.rdbase", ghSort), r, pos))
		t := e.P.lookupType("github.com/jcmturner/rpc/v2/mstypes.Reader")
		if t == nil {
			return nil, false
		}
		return &Ptr{Kind: PHeap, Ref: r, Base: t, Typ: t, NonNil: true}, true
	}
	for name, n := range map[string]int64{"Uint8": 1, "Uint16": 2, "Uint32": 4, "Uint64": 8} {
		n := n
		goModels["(*github.com/jcmturner/rpc/v2/mstypes.Reader)."+name] = func(e *Exec, c *ssa.CallCommon, a []Val, in ssa.Instruction) (Val, bool) {
			p, ok := a[0].(*Ptr)
			if !ok || p.Ref == nil {
				return nil, false
			}
			ln, pos := e.rdGet(p.Ref)
			ok2 := e.vc.Define("rdok", And(SGe(pos, bv64zero), SLe(BVAdd(pos, BVLitI(n, 64)), ln)))
			e.rdSet(p.Ref, nil, e.vc.Define("rdpos", Ite(ok2, BVAdd(pos, BVLitI(n, 64)), ln)))
			sig := c.Signature()
			v := e.havocTerm("rdv", sig.Results().At(0).Type())
			errT := e.havocTerm("err", sig.Results().At(1).Type())
			e.vc.Assume(True, Eq(Eq(IfTag(errT), IntLit(0)), ok2))
			// value: the n octets at the cursor in little-endian order (mstypes.Reader uses binary.LittleEndian)
			e.trust("mstypes.Reader.Uint8/16/32/64 and ReadBytes return the octets at the cursor of the underlying byte sequence (little-endian for the integers)")
			seq := e.ghGet("GH.rdseq", "(Array Int BSeq)", p.Ref)
			base := e.ghGet("GH.rdbase", ghSort, p.Ref)
			var val *Term
			for k := int64(0); k < n; k++ {
				bt := App("bseq.at", BV(8), seq, BVAdd(BVAdd(base, pos), BVLitI(k, 64)))
				if val == nil {
					val = bt
				} else {
					val = App("concat", BV(int(8*(k+1))), bt, val)
				}
			}
			e.vc.Assume(True, Implies(ok2, Eq(v, val)))
			return Tuple{v, errT}, true
		}
	}
	goModels["(*github.com/jcmturner/rpc/v2/mstypes.Reader).ReadBytes"] = func(e *Exec, c *ssa.CallCommon, a []Val, in ssa.Instruction) (Val, bool) {
		p, ok := a[0].(*Ptr)
		if !ok || p.Ref == nil {
			return nil, false
		}
		n := Resize(a[1].(*Term), 64, isSigned(c.Args[1].Type()))
		e.check("makesize", SGe(n, bv64zero), "mstypes.Reader.ReadBytes: negative length")
		e.allocBound(n, "mstypes.Reader.ReadBytes")
		ln, pos := e.rdGet(p.Ref)
		ok2 := e.vc.Define("rdok", And(SGe(pos, bv64zero), SLe(BVAdd(pos, n), ln)))
		e.rdSet(p.Ref, nil, e.vc.Define("rdpos", Ite(ok2, BVAdd(pos, n), ln)))
		r := e.allocRef("rdb")
		nh, hs := elemHeap(types.Typ[types.Byte])
		arr := e.vc.Fresh("rdbytes", ArraySort(BV(64), BV(8)))
		e.heapSet(nh, Store(e.heapGet(nh, hs), r, arr))
		errT := e.havocTerm("err", c.Signature().Results().At(1).Type())
		e.vc.Assume(True, Eq(Eq(IfTag(errT), IntLit(0)), ok2))
		// contents: the n octets at the cursor
		seq := e.ghGet("GH.rdseq", "(Array Int BSeq)", p.Ref)
		base := e.ghGet("GH.rdbase", ghSort, p.Ref)
		kq := Sym("rk.q", BV(64))
		e.vc.Assume(True, Implies(ok2, Forall([][2]string{{"rk.q", BV(64)}},
			Implies(And(SGe(kq, bv64zero), SLt(kq, n)), Eq(Select(arr, kq), App("bseq.at", BV(8), seq, BVAdd(BVAdd(base, pos), kq)))), Select(arr, kq))))
		return Tuple{MkSlice(r, bv64zero, n, n), errT}, true
	}
}

// ---------- gofork/encoding/asn1 (trusted codec): decoding returns an error or fills *val with an arbitrary
// type-valid value; rest is a suffix of the input; a decoded RawValue has 2 <= len(FullBytes) <= len(input).

func init() {
	m := func(e *Exec, c *ssa.CallCommon, a []Val, in ssa.Instruction) (Val, bool) {
		e.trust("gofork/encoding/asn1.Unmarshal*: error, or *val is an arbitrary type-valid value and rest a suffix of the input; RawValue.FullBytes has 2..len(input) bytes on success")
		b := a[0].(*Term)
		e.havocReach1(a[1], c.Args[1])
		nac := e.vc.Fresh("ac", SInt)
		e.vc.Assume(True, IntLe(e.st.ac, nac))
		e.st.ac = nac
		errT := e.havocTerm("err", c.Signature().Results().At(1).Type())
		k := e.vc.Fresh("consumed", BV(64))
		e.vc.Assume(True, And(SGe(k, bv64zero), SLe(k, SlLen(b))))
		e.vc.Assume(True, Implies(Eq(IfTag(errT), IntLit(0)), SGe(k, BVLitI(2, 64))))
		rest := MkSlice(SlRef(b), e.vc.Define("roff", BVAdd(SlOff(b), k)), BVSub(SlLen(b), k), BVSub(SlCap(b), k))
		if mi, ok := c.Args[1].(*ssa.MakeInterface); ok {
			if pt, ok := types.Unalias(mi.X.Type()).Underlying().(*types.Pointer); ok && strings.HasSuffix(typeKey(pt.Elem()), "asn1.RawValue") {
				if p, ok := e.val(mi.X).(*Ptr); ok {
					rv := e.toTerm(e.quietLoad(p), pt.Elem())
					si := structInfo(pt.Elem())
					for i, f := range si.Fields {
						if f.Name == "FullBytes" {
							fb := FieldSel(si, rv, i)
							e.vc.Assume(True, Implies(Eq(IfTag(errT), IntLit(0)), And(SGe(SlLen(fb), BVLitI(2, 64)), SLe(SlLen(fb), SlLen(b)), Eq(SlLen(fb), k))))
						}
					}
				}
			}
		}
		return Tuple{rest, errT}, true
	}
	goModels["github.com/jcmturner/gofork/encoding/asn1.Unmarshal"] = m
	goModels["github.com/jcmturner/gofork/encoding/asn1.UnmarshalWithParams"] = m
}

func (e *Exec) curPos() string {
	if e.curInstr == nil {
		return ""
	}
	return e.P.posString(instrPos(e.curInstr))
}

func (e *Exec) curLine() string {
	if e.curInstr == nil {
		return ""
	}
	return e.P.srcLine(instrPos(e.curInstr))
}

// strJoin: strings.Join as an uninterpreted function of the backing array, offset, length and separator.
func (e *Exec) strJoin(sl, sep *Term) *Term {
	n, s := elemHeap(types.Typ[types.String])
	arr := e.canonObj(e.heapGet(n, s), SlRef(sl))
	return App("strjoin", SStr, arr, SlOff(sl), SlLen(sl), sep)
}

func reachableMaps(t types.Type, out *[]*types.Map, seen map[string]bool) {
	t = types.Unalias(t)
	k := typeKey(t)
	if seen[k] || isTimeType(t) {
		return
	}
	seen[k] = true
	switch u := t.Underlying().(type) {
	case *types.Pointer:
		reachableMaps(u.Elem(), out, seen)
	case *types.Slice:
		reachableMaps(u.Elem(), out, seen)
	case *types.Array:
		reachableMaps(u.Elem(), out, seen)
	case *types.Struct:
		for i := 0; i < u.NumFields(); i++ {
			reachableMaps(u.Field(i).Type(), out, seen)
		}
	case *types.Map:
		*out = append(*out, u)
		reachableMaps(u.Elem(), out, seen)
	}
}

// havocGuarded: the state protected by a declared lock becomes arbitrary up to well-formedness and the lock invariant.
func (e *Exec) havocGuarded(lock Val, gi *GuardInfo) {
	if lp, ok := lock.(*Ptr); ok && len(gi.Fields) > 0 && len(lp.Path) > 0 {
		st, _ := types.Unalias(gi.ContT).Underlying().(*types.Struct)
		var names []string
		for n := range gi.Fields {
			names = append(names, n)
		}
		sort.Strings(names)
		ws := e.silent
		e.silent = true
		for _, n := range names {
			idx := gi.Fields[n]
			fp := *lp
			fp.Path = append(append([]PathEl(nil), lp.Path[:len(lp.Path)-1]...), PathEl{Field: idx, ContT: gi.ContT})
			fp.Typ = st.Field(idx).Type()
			fp.NonNil = true
			e.store(&fp, e.havocVal("g."+n, st.Field(idx).Type(), nil))
		}
		e.silent = ws
	}
	var hn []string
	for h := range gi.Heaps {
		hn = append(hn, h)
	}
	sort.Strings(hn)
	for _, h := range hn {
		e.heap0(h, gi.Heaps[h])
		e.st.heaps[h] = e.vc.Fresh(h, gi.Heaps[h])
	}
	// the values held by the havocked maps are well-formed objects allocated before now
	for _, mt := range gi.Maps {
		if !hasInv(mt.Elem()) {
			continue
		}
		_, mv := mapHeapNames(mt)
		vs := ArraySort(SInt, ArraySort(sortOf(mt.Key()), sortOf(mt.Elem())))
		el := Select(Select(e.heapGet(mv, vs), Sym("gm.q", SInt)), Sym("gk.q", sortOf(mt.Key())))
		e.vc.Assume(True, Forall([][2]string{{"gm.q", SInt}, {"gk.q", sortOf(mt.Key())}}, invOf(mt.Elem(), el, e.st.ac), el))
	}
	if gi.Inv != nil {
		if t, err := e.lockSelfEnv(lock).EvalBool(gi.Inv); err == nil {
			e.vc.Assume(e.g, t)
		} else {
			e.vc.Note("lock invariant of %s.%s not usable: %v", gi.TypeName, gi.Field, err)
		}
	}
}
