package main

import (
	"go/token"
	"context"
	"encoding/json"
	"fmt"
	"os"
	"os/exec"
	"go/types"
	"path/filepath"
	"reflect"
	"sort"
	"strings"
	"time"

	"golang.org/x/tools/go/ssa"
)

// Property definitions: which functions are under contract for each property, which obligation
// kinds decide it, property-specific hooks and non-SMT (table) obligations.

type PropDef struct {
	Funcs            []string // exact short names or regular expressions
	Closure          bool     // add everything reachable through static calls
	SkipInlinable    bool     // unexported loop-free helpers are checked at their (inlined) call sites only
	Kinds            map[string]bool
	Hooks            func(e *Exec)
	AllocBound       bool
	Extra            func(cc *checkCtx) []*Obligation
	Assumptions      []string
	NotDecided       []string
	LevelNote        string
	AllowUnsupported map[string]bool
	NeedObligations  bool
	QuickTimeout     int
	Exclude          []string // functions not part of this property (regexps)
	Level            string   // evidence level when everything is discharged (default "proof")
}

func kinds(ks ...string) map[string]bool {
	m := map[string]bool{}
	for _, k := range ks {
		m[k] = true
	}
	return m
}

var safetyKinds = []string{"cover", "bounds", "slice", "nil", "nilmap", "div0", "makesize", "typeassert", "negshift", "panic", "term", "alloc", "requires", "loop", "subset", "exists", "contract"}

var contractKinds = []string{"cover", "ensures", "requires", "loop", "frame", "term", "subset", "exists", "vacuity", "contract", "table",
	"bounds", "slice", "nil", "nilmap", "div0", "makesize", "typeassert", "negshift", "panic"}

var props = map[string]*PropDef{}

func init() {
	props["C14"] = &PropDef{
		Extra: func(cc *checkCtx) []*Obligation {
			return cc.boundedTest("keytab round trip", "keytab", "keytab_roundtrip_test.go.txt", "^TestGowpBoundedKeytabRoundTrip$",
				"2000 (thorough: 50000) pseudo-random keytabs: 1..5 entries, 1..3 components, key versions up to 2^32-1, key lengths 1..40, file versions 1 and 2; Unmarshal(Marshal(kt)) has the same entries and marshals to the same octets")
		},
		Funcs: []string{
			`(*keytab.Keytab).GetEncryptionKey`, `(*keytab.Keytab).Unmarshal`,
			`keytab.readInt8`, `keytab.readInt16`, `keytab.readInt32`, `keytab.readBytes`, `keytab.readTimestamp`, `keytab.parsePrincipal`,
			`(keytab.principal).marshal`, `keytab.marshalString`, `(keytab.entry).marshal`, `(*keytab.Keytab).Marshal`,
		},
		Kinds:           kinds(contractKinds...),
		NeedObligations: true,
		QuickTimeout:    20,
		Assumptions: []string{
			"isNativeEndianLittle (unsafe) is trusted; bytes.Buffer / binary.Read models are exact on the buffer contents (trusted stdlib)",
			"kvno passed to GetEncryptionKey satisfies 0 <= kvno < 2^32 (precondition from the property's quantifier; uint32(kvno) truncates outside it)",
		},
		NotDecided: []string{
			"round trip Unmarshal(Marshal(kt)) == kt for all keytabs: only the component count field is proved on both sides; the whole round trip is covered by the bounded stand-in (random keytabs), not proved; agreement with an independent reader of whole files",
			"parsePrincipal's error is dropped by Unmarshal (observed, not yet an obligation)",
		},
		LevelNote: "Lookup: GetEncryptionKey is proved against the matching rule kmatch of the property (both directions stated in the property, and newest-timestamp preference) for every keytab and query. Parsing: the readers are proved to decode exactly the bytes at the cursor in the file's byte order and to advance it; Unmarshal is proved memory-safe and terminating. Writing: principal.marshal is proved to write the component count the way parsePrincipal reads it back (a version 1 file counts the realm; the defect fixed in 54a8b3c fails this clause); the marshal functions are proved memory-safe.",
	}
	props["C01"] = &PropDef{
		Funcs: []string{
			`service.VerifyAPREQ`,
			`\(\*service\.Settings\)\.(MaxClockSkew|KeytabPrincipal|ClientAddress|RequireHostAddr|Logger)`,
			`\(\*messages\.APReq\)\.(Verify|DecryptAuthenticator)`, `\(\*messages\.Ticket\)\.(Valid|Decrypt|DecryptEncPart|GetPACType)`,
			`messages.authenticatorKeyUsage`, `messages.NewKRBError`,
			`(*keytab.Keytab).GetEncryptionKey`,
			`(types.PrincipalName).Equal`, `(*types.HostAddress).Equal`, `types.HostAddressesContains`, `types.IsFlagSet`,
			`crypto.DecryptEncPart`, `crypto.DecryptMessage`, `crypto.GetEtype`,
			`credentials.NewFromPrincipalName`, `\(\*credentials\.Credentials\)\.(SetAuthTime|SetAuthenticated|SetValidUntil|SetADCredentials)`,
		},
		Kinds:           kinds(contractKinds...),
		NeedObligations: true,
		QuickTimeout:    20,
		Assumptions: []string{
			"decryption success and plaintext of an etype are the uninterpreted et_dec_ok / et_dec_pt (contract of etype.EType.DecryptMessage, trusted_ensures); that they are the RFC functions is C05/C06",
			"the ASN.1 decoder fills only the destination structure (trusted_frame on Ticket.Decrypt / DecryptAuthenticator / DecryptEncPart); decoded field values are unconstrained, so every claim is about whatever was decoded from the decrypted bytes",
			"time.Now readings are unconstrained instants; now#1 is the reading used for ticket validity, now#2 the one for authenticator skew",
			"the replay cache and PAC decoding are seen through frame-only contracts here (IsReplay, GetPACType, SetADCredentials: trusted_frame); replay detection is C02, PAC verification C19",
		},
		NotDecided: []string{
			"the completeness direction is stated per RFC error code (a request is refused with code X only if condition X fails) rather than as one biconditional, because success of the two decryptions also depends on the decoded ASN.1 being well-formed",
			"'the keytab key selected' is stated as: some keytab entry matching principal/realm/kvno/etype (kmatch) decrypts the ticket; that GetEncryptionKey returns the newest such entry is C14",
			"the replay and PAC clauses are stated through ghost records of the callee results (accepted => IsReplay answered false and GetPACType did not report a bad PAC); what those callees guarantee is C02 / C19",
		},
		LevelNote: "Proved for every AP-REQ, keytab and settings: VerifyAPREQ returns ok only if a matching keytab entry decrypts the ticket (usage 2), both clock readings are inside start/end/authenticator time extended by the effective skew (default 5 min when unset), the invalid flag is clear, the address requirements hold, the authenticator decrypts under the ticket session key with usage 11 (7 for krbtgt), cname and crealm agree with the ticket; and the credentials returned carry the ticket's cname, crealm and endtime. Refusals always carry an error, and each RFC 4120 error code is only produced when its condition holds.",
	}
	props["C09"] = &PropDef{
		Funcs: []string{
			`\(\*messages\.ASRep\)\.(Verify|DecryptEncPart)`, `\(\*messages\.TGSRep\)\.(Verify|DecryptEncPart)`,
			`(*client.Client).ASExchange`, `(*client.Client).TGSExchange`, `(*client.Cache).addEntry`,
			`types.HostAddressesEqual`, `types.HostAddressesContains`, `(*types.HostAddress).Equal`, `(*types.PADataSequence).Contains`,
			`(types.PrincipalName).Equal`, `types.IsFlagSet`,
			`crypto.DecryptEncPart`, `crypto.DecryptMessage`, `(*keytab.Keytab).GetEncryptionKey`,
		},
		Kinds:           kinds(contractKinds...),
		NeedObligations: true,
		QuickTimeout:    20,
		Assumptions: []string{
			"decryption success of an etype is the uninterpreted et_dec_ok (contract of etype.EType.DecryptMessage, trusted_ensures); C05/C06 relate it to the RFCs",
			"the ASN.1 decoder fills only the destination structure (trusted_frame on the Unmarshal methods); decoded field values are unconstrained",
			"sendToKDC returns arbitrary bytes or an arbitrary error (network is the adversary); setPAData rewrites only the request's PA-DATA and two client settings (trusted_frame)",
			"the password-derived key is whatever crypto.GetKeyFromPassword returns for the reply's cname/crealm/etype/PA-DATA (its RFC correctness is C08)",
		},
		NotDecided: []string{
			"that a KRB-ERROR reply reaches the caller carrying the KDC's error code: the code is embedded in a formatted error text (krberror.Errorf), outside what the contracts express",
			"rejection of every altered reply is stated as the soundness direction only (accepted => all checks hold); that any single altered field is caught follows from it, but truncated encodings are a decoder matter (C04/C13)",
			"TGS-REP: the library does not compare the reply's sname with the request (the check is commented out in TGSRep.Verify); the contract states only what the code checks (cname, ticket realm, nonce, srealm, addresses, time)",
		},
		LevelNote: "Proved for every reply, request, credentials and configuration: ASRep.Verify / ASExchange succeed only if cname, crealm, nonce, sname, srealm (and addresses when requested) equal those of the request sent, the enc-part decrypts (usage 3) under the client's key - for keytab credentials an entry matching the reply's cname/crealm/kvno/etype - and KDC authtime is within the configured clockskew; TGSRep.DecryptEncPart uses usage 8 with the TGT session key and TGSRep.Verify / TGSExchange succeed only if cname, ticket realm, nonce and srealm match the request returned with the reply, every reply address is among the requested ones and start or auth time is within clockskew. Both exchanges terminate: referral recursion has the variant 6 - referral.",
	}
	props["C02"] = &PropDef{
		Extra: func(cc *checkCtx) []*Obligation { return cc.cleanupArgCheck() },
		Funcs: []string{
			`(*service.Cache).IsReplay`, `(*service.Cache).AddEntry`, `(*service.Cache).addEntry`, `(*service.Cache).ClearOldEntries`,
			`(*service.Cache).getClientEntries`, `(*service.Cache).getClientEntry`, `service.GetReplayCache`,
			`service.VerifyAPREQ`,
		},
		Kinds:           kinds(append([]string{"lock", "table"}, contractKinds...)...),
		NeedObligations: true,
		QuickTimeout:    20,
		Assumptions: []string{
			"concurrency is modelled by the lock-invariant rule: the maps declared as guarded by Cache.mux are arbitrary (up to the declared lock invariant, which is proved at every release) at each acquisition, and only accessed with the lock held (proved); goroutine interleavings between critical sections are covered by that havoc, data races outside declared guards and deadlocks across several locks are not analysed",
			"a function without a held() precondition is entered with no declared lock held",
			"map keys are compared as values: time.Time keys by instant (decoded authenticator times are UTC without monotonic reading), strings.Join is an uninterpreted function of the name components (so names whose components contain '/' may collide, as in the code)",
		},
		NotDecided: []string{
			"the interval at which the clean-up goroutine runs (timing); that it evicts with the skew GetReplayCache was given is decided structurally (its call passes the parameter d unchanged)",
			"the client realm is not part of the cache key in the code; the property statement speaks of client name and timestamp only",
		},
		LevelNote: "Proved for every cache content and every schedule in the lock-invariant model: IsReplay is an atomic test-and-set under one write lock - it returns true exactly when (client name, authenticator time incl. microseconds, service name) was recorded at the moment the lock was taken, records the presentation, and neither forgets nor adds any other record; AddEntry likewise; ClearOldEntries never adds a record; every access to the guarded maps happens with the lock held at the needed level, no lock is re-acquired or released unheld, and the lock invariant (every client has its own non-nil map) is re-established at each release. VerifyAPREQ accepts only when IsReplay answered false (ghost lastIsReplay).",
	}
	props["C03"] = &PropDef{
		Funcs: []string{
			`spnego.SPNEGOKRB5Authenticate$1`, `spnego.getAuthorizationNegotiationHeaderAsSPNEGOToken`, `spnego.getSessionCredentials`, `spnego.newSession`,
			`spnego\.spnego(NegotiateKRB5MechType|ResponseReject|InternalServerError|ResponseAcceptCompleted)`,
			`(*spnego.SPNEGO).AcceptSecContext`, `\(\*spnego\.(SPNEGOToken|NegTokenInit|NegTokenResp|KRB5Token)\)\.(Verify|Context)`,
			`service.VerifyAPREQ`,
		},
		Kinds:           kinds(contractKinds...),
		NeedObligations: true,
		QuickTimeout:    20,
		Assumptions: []string{
			"context.Background / WithValue / Value are modelled: a context made by WithValue(parent, k, v) answers Value(k) with v, keys compared as interface values (stdlib, trusted)",
			"net/http is seen through ghost records: http.Error sets the response status, Header.Set records that WWW-Authenticate was set, Handler.ServeHTTP marks the request as served (trusted stdlib contracts)",
			"the session store (goidentity / gorilla session manager behind service.Settings) is external: a session whose gob-encoded credentials decode and report Authenticated() is taken as established by an earlier accepted request",
			"ghost variables apreqAccepted / apreqCreds record the outcome of the last service.VerifyAPREQ call; a stale value cannot help a proof because the entry value of a ghost is arbitrary",
		},
		NotDecided: []string{
			"the exact WWW-Authenticate header value (Negotiate plus the base64 NegTokenResp) is not compared, only that the header is set together with status 401",
			"sequences of requests with a session manager: the session store is external and not under contract",
		},
		LevelNote: "Proved for every request and token: KRB5Token.Verify, NegTokenInit/NegTokenResp/SPNEGOToken.Verify and AcceptSecContext return ok only if service.VerifyAPREQ accepted the AP-REQ inside the token, then with status COMPLETE and a context carrying exactly the credentials VerifyAPREQ returned, and never return status COMPLETE otherwise; the HTTP wrapper calls the wrapped handler only after such an acceptance (with those credentials as identity) or for an established session, and otherwise answers 401 with WWW-Authenticate set (500 when the session store fails).",
	}
	props["C08"] = &PropDef{
		Funcs: []string{
			`crypto.GetKeyFromPassword`, `types.GenerateEncryptionKey`, `(types.PrincipalName).GetSalt`,
			`crypto/rfc3962\.(S2KparamsToItertions|StringToPBKDF2|StringToKey|StringToKeyIter)`,
			`crypto/rfc8009\.(S2KparamsToItertions|GetSaltP|StringToPBKDF2|StringToKey|StringToKeyIter|KDF_HMAC_SHA2|DeriveKey|DeriveRandom)`,
			`crypto/rfc4757\.(StringToKey|HMAC)`,
			`crypto/rfc3961\.(DES3StringToKey|DeriveKey|DeriveRandom|DES3RandomToKey|stretch56Bits|fixWeakKey|weak)`,
			`\(crypto\.[A-Za-z0-9]+\)\.(StringToKey|DeriveKey|DeriveRandom|RandomToKey|GetKeyByteSize|GetKeySeedBitLength|GetDefaultStringToKeyParams|GetETypeID|GetHashFunc)`,
			`crypto.GetEtype`,
		},
		Kinds:           kinds(contractKinds...),
		NeedObligations: true,
		QuickTimeout:    20,
		Extra: func(cc *checkCtx) []*Obligation {
			return cc.boundedTest("crypto/rfc3961.Nfold", "crypto/rfc3961", "nfold_test.go.txt", "^TestGowpBoundedNfold$",
				"all 1- and 2-octet inputs, 20000 (thorough: 400000) pseudo-random inputs of 3..40 octets, output sizes 56/64/128/168/192/256 bits, RFC 3961 A.1 vectors; oracle: independent big-integer implementation of RFC 3961 5.1")
		},
		Assumptions: []string{
			"PBKDF2, HMAC, the hash functions, hex encoding, UTF-16 encoding of runes and []rune(string) are uninterpreted functions (pbkdf2, hmac, hashf, hexdec/hexenc, utf16.arr, runes.arr); that the libraries compute them is not gokrb5 code",
			"n-fold is the uninterpreted nfold(m, n) in the contracts (trusted contract on rfc3961.Nfold: nonlinear bit-index arithmetic is outside what the solvers decide); the implementation is compared with an independent RFC 3961 5.1 implementation by the bounded stand-in, which is not a proof",
			"des3 random-to-key (parity and weak-key correction) and the DR feedback loop are taken at the level of des3_r2k / et_dr (trusted_ensures on DES3RandomToKey / rfc3961.DeriveRandom)",
			"the ASN.1 decoders of PA-ETYPE-INFO / PA-ETYPE-INFO2 are trusted; the first decoded entry is an uninterpreted function of the encoding",
			"the default parameters of an etype are the text its GetDefaultStringToKeyParams returns (et_defparams); their numeric values are literals in the six implementations",
		},
		NotDecided: []string{
			"GetKeyFromPassword is specified for sequences containing PA-ETYPE-INFO2 (which wins) and for sequences with none of the three elements; the PA-ETYPE-INFO-only and PA-PW-SALT-only cases follow the same mechanism but are not stated as postconditions",
			"bit-level definitions of des3 random-to-key (stretch56Bits parity, weak keys) against RFC 3961 6.3.1 are only checked for memory safety and lengths here",
		},
		LevelNote: "Proved for every password, salt, parameter and PA-DATA sequence: string-to-key of the six etypes equals the RFC composition - DK(random-to-key(PBKDF2-HMAC-SHA1(...)), \"kerberos\") with 0 meaning 2^32 iterations (RFC 3962 4), KDF-HMAC-SHA2(random-to-key(PBKDF2-HMAC-SHA2(pw, etype-name|0|salt, iter, keylength)), \"kerberos\") (RFC 8009 4), DK(random-to-key(168-fold(pw|salt)), \"kerberos\") (RFC 3961 6.3.1), MD4(UTF-16LE(pw)) (RFC 4757 2); KDF-HMAC-SHA2 and the RFC 8009 / 4757 derive-key functions equal their RFC definitions; GetKeyFromPassword uses etype, salt and parameters of the last PA-ETYPE-INFO2 wherever it stands, and the requested etype with default salt and parameters when no string-to-key PA-DATA is present; generated keys carry the etype number and the protocol key length (open known finding: 24 instead of 32 octets for aes256-cts-hmac-sha384-192). n-fold: bounded stand-in only.",
	}
	props["C11"] = &PropDef{
		Funcs: []string{
			`\(\*client\.Cache\)\.[A-Za-z]+`, `\(\*client\.sessions\)\.[A-Za-z]+`, `\(\*client\.session\)\.[A-Za-z]+`,
			`(*client.Client).GetCachedTicket`, `(*client.Client).sessionTGT`, `(*client.Client).sessionTimes`, `(*client.Client).addSession`,
			`config.randServOrder`, `(*config.Config).GetKDCs`, `(*config.Config).GetKpasswdServers`,
		},
		Kinds:            kinds(append([]string{"lock", "table"}, contractKinds...)...),
		NeedObligations:  true,
		QuickTimeout:     20,
		Extra:            func(cc *checkCtx) []*Obligation { return cc.chanSendCheck("client") },
		Assumptions: []string{
			"concurrency is modelled by the lock-invariant rule: state declared as guarded by a mutex (the Entries maps of client.Cache and client.sessions, the mutable fields of client.session) is arbitrary at every acquisition and may only be accessed with that mutex held at the needed level (proved per access); interleavings between critical sections are covered by the havoc; accesses to memory that is not declared guarded are not analysed for races",
			"an object allocated by the function itself is initialised without its lock (taken as unpublished)",
			"lock ordering across different mutexes (deadlock freedom) is not analysed beyond: no declared lock is acquired while already held by the same function, none is released unheld",
			"a channel send is a no-op on the modelled state (session.destroy and sessions.update are verified for their lock discipline and guarded accesses with it); select and receive, i.e. the auto-renewal goroutine, are outside the subset of the symbolic executor; for blocking only the structural rule 'a blocking send goes to a channel field whose every creation site has capacity >= 1' is decided (kind table); that at most one value is sent per channel instance (a cancelled session leaves the table in the same critical section) is assumed",
		},
		NotDecided: []string{
			"data-race freedom of state that is not declared guarded (Client.settings.assumePreAuthentication and preAuthEType are written by ASExchange without a lock), deadlocks involving the renewal goroutine's cancel channel, goroutine leaks",
			"randServOrder is proved to return the configured servers as a set with keys 1..n; with duplicate entries in the configuration the multiset (true permutation) claim is not stated",
		},
		LevelNote: "Proved in the lock-invariant model: every access to the client's ticket cache map, session table map and to the mutable fields of a session happens with the object's mutex held (read lock for reads, write lock for writes), no mutex is re-acquired or released unheld; Cache.getEntry and session.tgtDetails return a ticket and a session key read in one critical section from one entry; randServOrder returns exactly the configured servers under keys 1..n and KDC / kpasswd look-up does not write to the configuration.",
	}
	props["C13"] = &PropDef{
		Funcs: []string{
			`types.SetFlag`, `types.UnsetFlag`, `types.IsFlagSet`,
			`asn1tools.GetLengthFromASN`, `asn1tools.GetNumberBytesInLengthHeader`,
		},
		Kinds:           kinds(append([]string{"table"}, contractKinds...)...),
		NeedObligations: true,
		QuickTimeout:    20,
		Extra: func(cc *checkCtx) []*Obligation {
			out := cc.asn1TableCheck()
			out = append(out, cc.boundedTest("asn1tools.MarshalLengthBytes", "asn1tools", "asn1len_test.go.txt", "^TestGowpBoundedASN1Length$",
				"every length 0..2^24, values around each power of two from 2^24 to 2^55, agreement with the codec's own length octets; oracle: X.690 8.1.3 written out independently, round trip through GetLengthFromASN / GetNumberBytesInLengthHeader")...)
			out = append(out, cc.boundedTest("messages round trip", "messages", "roundtrip_test.go.txt", "^TestGowpBoundedRoundTrip$",
				"300 (thorough: 5000) pseudo-random values per type inside the RFC value ranges for Ticket, KDCReqBody, ASReq, TGSReq, ASRep, TGSRep, EncKDCRepPart, APReq, KRBError, KRBPriv, Authenticator: Unmarshal(Marshal(x)) == x, re-encoding reproduces the bytes, a ticket re-encoded after decryption is unchanged (with a filled-in decrypted part, and after a real Decrypt for each of the six etypes: decryption does not write into the message)")...)
			return out
		},
		Assumptions: []string{
			"the reflection-driven ASN.1 codec (github.com/jcmturner/gofork/encoding/asn1) is trusted to encode and decode according to the struct tags; what is decided here is that the tags and field types are the RFC ones",
			"the RFC field tables in /verif/spec/asn1_tables.txt were written from the ASN.1 modules of RFC 4120, RFC 4178, RFC 3244 and RFC 6806 (manual transcription, part of the trusted base)",
		},
		NotDecided: []string{
			"decode(encode(x)) == x and byte-exact re-encoding for all values: covered by the bounded round-trip stand-in only (random values per type), not proved",
			"MarshalLengthBytes for all lengths: bounded stand-in (exhaustive to 2^24 plus boundaries); its loop needs modular arithmetic with a symbolic modulus",
			"application tag numbers added by AddASNAppTag at each call site, SPNEGO/GSS framing bytes (those are C17 and the decoders' safety C04)",
		},
		LevelNote: "Proved: KerberosFlags bit numbering (flag i = bit i from the most significant bit of the first octet, RFC 4120 5.2.8) for IsFlagSet, and that SetFlag / UnsetFlag change exactly that flag and keep at least 32 bits. Decided exactly over the current source (table obligations): every field of every struct handed to the ASN.1 codec (44 structs of RFC 4120 / 4178 / 3244 / 6806) carries the RFC's context tag number, EXPLICIT tagging, OPTIONAL-ness, GeneralString / GeneralizedTime typing, and an integer type wide enough for the RFC range (UInt32 needs more than 32 bits). Bounded stand-ins (not proofs): DER length octets exhaustive to 2^24, message round trips.",
	}
	props["C19"] = &PropDef{
		Funcs: []string{
			`(*pac.SignatureData).Unmarshal`, `(*pac.PACType).verify`, `(*pac.PACType).Unmarshal`, `(*pac.PACType).ProcessPACInfoBuffers`,
			`(*messages.Ticket).GetPACType`, `(*keytab.Keytab).GetEncryptionKey`, `crypto.GetChksumEtype`,
			`\(crypto\.[A-Za-z0-9]+\)\.VerifyChecksum`, `crypto/common.VerifyChecksum`, `service.VerifyAPREQ`,
			`(*pac.KerbValidationInfo).GetGroupMembershipSIDs`, `(service.KRB5BasicAuthenticator).Authenticate`,
		},
		Kinds:           kinds(contractKinds...),
		NeedObligations: true,
		QuickTimeout:    20,
		Assumptions: []string{
			"mstypes.FileTime.Time is a deterministic, uninterpreted function of the two words (spec function filetime)",
			"mstypes.RPCSID.String is a deterministic, uninterpreted function of the SID value and its sub-authority array (contract builtin sidstr)",
			"the keyed checksum of a checksum type is the uninterpreted et_cksum (C07 relates it to the HMAC compositions); 'changing any bit makes it fail' rests on the MAC assumption",
			"mstypes.Reader returns the octets at its cursor, little-endian for integers (model of the rpc/v2 dependency, trusted); the NDR decoders of the individual info buffers (KerbValidationInfo, ClientInfo, ...) are trusted to fill only structures they allocate",
			"trusted frame of ProcessPACInfoBuffers (writes the PAC object and its to-be-signed copy only)",
		},
		NotDecided: []string{
			"that ZeroSigData equals the PAC octets with exactly the two signature fields zeroed is proved per signature buffer (SignatureData.Unmarshal zeroes exactly the signature octets) but not as a whole-PAC postcondition of ProcessPACInfoBuffers",
			"the NDR decoding of KerbValidationInfo is a trusted dependency; of GetGroupMembershipSIDs only the extra-SID clause is proved (every extra SID of the validation info is in the returned list) - the '<domain SID>-<RID>' members are built by fmt.Sprintf, outside the subset; the group list and the logon domain id are not tied to the ADCredentials handed over, (the same clauses are proved for KRB5BasicAuthenticator.Authenticate)",
			"the KDC signature is not verified by the library (only its presence is required), as in the code",
		},
		LevelNote: "Proved for every PAC, key and keytab: SignatureData.Unmarshal reads the checksum type as the little-endian word at 0, takes exactly the type's signature length ([MS-PAC] 2.8: 16/12/12/16/24) and returns the buffer with exactly those octets zeroed, everything else (including a trailing RODC identifier) kept; verify / ProcessPACInfoBuffers succeed only with KerbValidationInfo, ClientInfo, server and KDC signature buffers present and the server signature equal to the keyed checksum (usage 17) of its declared type over ZeroSigData; GetPACType reports a PAC without error only if that holds under a keytab key matching the (override) service principal, realm, kvno and etype of the ticket; VerifyAPREQ accepts a request carrying a PAC only then (ghost lastPACBad). GetGroupMembershipSIDs returns a list containing the string form of every extra SID of the validation info (nested-loop invariant with a forall-exists). The attributes VerifyAPREQ hands to the credentials (logon, logoff and password-last-set times, user and primary group id, effective / full name, logon server and domain name) are field by field those of the PAC it has just verified (ghost record of SetADCredentials' argument against the local holding the PAC; FileTime.Time uninterpreted).",
	}
	props["C12"] = &PropDef{
		Funcs: []string{
			`(*client.Client).sendToKDC`, `(*client.Client).sendKDCUDP`, `(*client.Client).sendKDCTCP`,
			`client.dialSendUDP`, `client.dialSendTCP`, `client.sendUDP`, `client.sendTCP`, `client.checkForKRBError`,
			`(*config.Config).GetKDCs`, `config.randServOrder`,
		},
		Kinds:           kinds(contractKinds...),
		NeedObligations: true,
		QuickTimeout:    20,
		Assumptions: []string{
			"the network is arbitrary: every dial, write and read may fail or return any octets (trusted stdlib contracts for net.DialTimeout, UDPConn/TCPConn, io.ReadFull); ghost variables count connection attempts and transport uses and record each transport's error",
			"a TCP read may be short (contract of (*net.TCPConn).Read), io.ReadFull reads everything or fails",
			"KRBError.Unmarshal in checkForKRBError is the trusted ASN.1 decoder: whether reply octets are a KRB-ERROR is arbitrary here",
		},
		NotDecided: []string{
			"'some configured KDC answers correctly => the exchange returns that answer' is stated as: a transport gives up only after every configured server was tried, and the first reply received is returned; the KDC's behaviour itself is outside the code",
			"per-connection deadlines (timing) and what the DNS SRV look-up returns",
		},
		LevelNote: "Proved for every configuration, request and network behaviour: dialSendUDP / dialSendTCP try the servers in the order GetKDCs returned, return the first reply received and fail only after exactly len(kdcs) connection attempts (and terminate); sendTCP reads the complete 4-octet length header and the complete reply; sendToKDC uses TCP only when udp_preference_limit is 1, UDP first for requests up to the limit and TCP first otherwise, returns success exactly when the last transport used succeeded, surfaces a KRB-ERROR with the KDC's error code, and falls back to the other transport after a KRB-ERROR only for UDP's KRB_ERR_RESPONSE_TOO_BIG; GetKDCs returns every configured server once (set level) under keys 1..n.",
	}
	props["C05"] = &PropDef{
		Extra: func(cc *checkCtx) []*Obligation {
			return cc.boundedTest("crypto round trip", "crypto", "crypto_roundtrip_test.go.txt", "^TestGowpBoundedCryptoRoundTrip$",
				"six etypes, message lengths 0..80 and 2000 (thorough: 40000) random (key, usage, message) triples: DecryptMessage(EncryptMessage(m)) == m on the real code (des3 up to zero padding)")
		},
		Funcs: []string{
			`crypto/rfc3961\.(DES3EncryptData|DES3DecryptData|DES3EncryptMessage|DES3DecryptMessage|VerifyIntegrity)`,
			`crypto/rfc3962\.(EncryptData|DecryptData|EncryptMessage|DecryptMessage)`,
			`crypto/rfc8009\.(EncryptData|DecryptData|EncryptMessage|DecryptMessage|VerifyIntegrity|GetIntegityHash)`,
			`crypto/rfc4757\.(EncryptData|DecryptData|EncryptMessage|DecryptMessage|VerifyIntegrity|HMAC|UsageToMSMsgType|deriveKeys)`,
			`\(crypto\.[A-Za-z0-9]+\)\.(EncryptData|DecryptData|EncryptMessage|DecryptMessage|VerifyIntegrity)`,
			`crypto/common\.(GetHash|GetIntegrityHash|getUsage|GetUsageKe|GetUsageKi)`,
			`crypto.lemmaRoundTrip`, `crypto.lemmaCanaryRoundTrip`,
		},
		Kinds:           kinds(contractKinds...),
		NeedObligations: true,
		QuickTimeout:    40,
		Assumptions: []string{
			"the cipher modes are uninterpreted functions with their inverse laws: AES-CBC-CTS (aescts dependency), three-key triple-DES CBC and the RC4 key stream; HMAC and the hash functions are uninterpreted; that the Go libraries compute them is not gokrb5 code (trusted dependency contracts, including 'first use of a freshly created cipher' for rc4 / CBC objects)",
			"key derivation is et_dk (proved for RFC 8009 / RFC 4757, composed over the uninterpreted DR for RFC 3961: C07 / C08)",
			"crypto/rand.Read fills the confounder; 'two encryptions differ' is stated as: the ciphertext is the RFC function of the octets just drawn from crypto/rand (ghost lastRandom), the randomness itself is the operating system's",
			"laws of sequences used by the round-trip lemma (truncating / cutting a concatenation) are axioms of the sequence theory; a vacuity canary (a false lemma over the same specification) must stay unprovable on every run",
		},
		NotDecided: []string{
			"completeness of decryption at the code level (every ciphertext satisfying the RFC condition is accepted, i.e. no spurious error paths such as length or key-size guards) is proved only at the specification level; on the code it is covered by the bounded encrypt/decrypt stand-in, not proved",
		},
		LevelNote: "Proved for all six etypes, every key, usage and message: EncryptMessage returns exactly the RFC composition over the confounder drawn from crypto/rand - E(Ke, conf|msg|pad) | HMAC(Ki, conf|msg|pad) truncated (RFC 3961 5.3, des3 with zero padding to 8 octets, RFC 3962), C | HMAC(Ki, IV|C) (RFC 8009 5), HMAC-MD5 checksum | RC4(K3, conf|data) with the Microsoft usage mapping (RFC 4757 5); DecryptMessage returns the decryption of the body without the confounder; and (lemma proved from the specification) decrypting any RFC encryption under the same key and usage is accepted and returns the message (for des3 up to the prescribed zero padding). Hence library and RFC interoperate in both directions.",
	}
	props["C06"] = &PropDef{
		Funcs: []string{
			`crypto/rfc3961\.(DES3DecryptData|DES3DecryptMessage|VerifyIntegrity)`,
			`crypto/rfc3962\.(DecryptData|DecryptMessage)`,
			`crypto/rfc8009\.(DecryptData|DecryptMessage|VerifyIntegrity|GetIntegityHash)`,
			`crypto/rfc4757\.(DecryptData|DecryptMessage|VerifyIntegrity|HMAC|UsageToMSMsgType|deriveKeys)`,
			`\(crypto\.[A-Za-z0-9]+\)\.(DecryptData|DecryptMessage|VerifyIntegrity)`,
			`crypto/common\.(GetHash|GetIntegrityHash|getUsage|GetUsageKe|GetUsageKi)`,
			`crypto.DecryptMessage`, `crypto.DecryptEncPart`, `crypto.lemmaCanaryRoundTrip`,
		},
		Kinds:           kinds(contractKinds...),
		NeedObligations: true,
		QuickTimeout:    40,
		Assumptions: []string{
			"HMAC is uninterpreted; 'any flipped bit, other key or other usage is rejected' follows from the proved acceptance condition (the carried MAC equals the RFC MAC over what the body decrypts to under the usage-derived keys) together with the MAC assumption (distinct inputs or keys give distinct MACs), which is cryptographic and not proved",
			"cipher modes and key derivation as in C05",
		},
		NotDecided: []string{
			"key usages that alias by specification (RFC 4757 maps usages 3 and 9 to 8) are part of the RFC function and not distinguished",
		},
		LevelNote: "Proved for all six etypes, every key, usage and byte string: DecryptMessage returns without error only if the input is at least a confounder plus a MAC long and the MAC it carries equals the RFC MAC - HMAC(Ki, decrypted body) truncated at the end (RFC 3961 5.3 / RFC 3962), HMAC(Ki, IV | ciphertext body) truncated (RFC 8009), leading HMAC-MD5(K2, decrypted body) (RFC 4757) - computed with the keys derived from the presented key and usage; on every error no plaintext is returned (length 0). VerifyIntegrity of each family returns true only under that equality.",
	}
	props["C20"] = &PropDef{
		Level: "other", // an exact type-level decision, not a solver-discharged proof
		Funcs: []string{
			`(*messages.Ticket).Marshal`, `(*messages.KRBPriv).Marshal`, `(*messages.APReq).Marshal`,
		},
		Kinds:            kinds(append([]string{"label", "bounded"}, contractKinds...)...),
		NeedObligations:  false,
		QuickTimeout:     20,
		Extra: func(cc *checkCtx) []*Obligation {
			out := cc.labelCheck()
			out = append(out, cc.boundedTest("messages round trip", "messages", "roundtrip_test.go.txt", "^TestGowpBoundedRoundTrip$",
				"wire encodings: 300 (thorough: 5000) random tickets re-encoded after their enc-part was decrypted contain no octet run of the decrypted session key and reproduce the original bytes (shared with C13)")...)
			return out
		},
		Assumptions: []string{
			"the label source table: EncryptionKey.KeyValue (every long-term key, session key and subkey in the library is an EncryptionKey) and Credentials.password (secretFields in gowp/props.go); a secret copied into a plain []byte or string variable loses its label (type-level, flow-insensitive)",
			"the sink table: the fmt / log formatting functions, krberror.Errorf / NewErrorf, Client.Log, SPNEGO.Log and the SPNEGO response helpers, encoding/json.Marshal / MarshalIndent (fmtSinks / jsonSinks); fmt prints every field reachable from an operand, encoding/json only exported fields not tagged json:\"-\"",
		},
		NotDecided: []string{
			"flows of key octets that were first copied into untyped byte slices or strings (for example keytab reader errors formatting the raw input), hex / base64 re-encodings, and text produced by dependencies",
			"'specified to carry them only encrypted' for every message type: decided for Ticket / AP-REQ by the bounded re-encoding stand-in (and the fix: commit that made it hold), not proved",
		},
		LevelNote: "Decided exactly over the current source (one label obligation per operand): no value handed to a formatting, logging or error-text function anywhere in the library, and no value handed to encoding/json, has a static type from which a field holding key material or a password is reachable the way that sink prints it (fmt: all fields; json: exported fields without json:\"-\"). Bounded stand-in: re-encoded tickets never contain the decrypted session key.",
	}
	props["C10"] = &PropDef{
		Funcs: []string{
			`(*client.Client).GetCachedTicket`, `(*client.Cache).getEntry`, `(*client.Cache).addEntry`, `(*client.session).update`,
			`(*client.Client).TGSExchange`, `(*client.Client).ASExchange`, `(*client.Client).TGSREQGenerateAndExchange`,
			`(*client.Client).ensureValidSession`,
		},
		Kinds:           kinds(append([]string{"lock"}, contractKinds...)...),
		NeedObligations: true,
		QuickTimeout:    20,
		Assumptions: []string{
			"time.Now readings are arbitrary non-decreasing instants; now#1 / now#2 are the two readings GetCachedTicket compares with the entry's start and end time",
			"ghost records: the start / end time of the cache entry returned by Cache.getEntry, a count of ticket renewals, a count of session refreshes / logins (event counters: their contract clauses hold by definition)",
			"exchanges with the KDC are the contracts of C09 (replies arbitrary, accepted only if they answer the request)",
		},
		NotDecided: []string{
			"'against any conformant KDC login obtains a TGT and the right service ticket', well-formedness of the requests built by NewASReq / NewTGSReq (options, etypes, lifetimes, pre-authentication) and the auto-renewal goroutine over time: protocol-level histories that per-function contracts do not express; the reply-matching part is C09",
		},
		LevelNote: "Proved: a ticket is served from the cache without renewal only if the first clock reading lies after the entry's start time and the second before its end time (the entry being the one read under the cache lock); a renewed TGT overwrites every field of the session with the values of the KDC reply (authtime, endtime, renew-till, ticket, session key, key expiration); AS and TGS referral chains are bounded by the variant 6 - referral, including through TGSREQGenerateAndExchange; ensureValidSession leaves a session unrefreshed only if, at the clock reading it takes under the session's lock, more than a sixth of the session's lifetime remains. The protocol-level clauses are listed as not decided.",
	}
	props["C15"] = &PropDef{
		Funcs: []string{
			`credentials\.read(Int8|Int16|Int32|Bytes|Data|Timestamp|Address|AuthDataEntry)`,
			`\(\*credentials\.CCache\)\.(Contains|GetEntry|GetEntries)`, `(types.PrincipalName).Equal`,
		},
		Kinds:           kinds(contractKinds...),
		NeedObligations: true,
		QuickTimeout:    20,
		Extra: func(cc *checkCtx) []*Obligation {
			return cc.boundedTest("ccache file to client", "client", "ccache_client_test.go.txt", "^TestGowpBoundedCCacheClient$",
				"400 (thorough: 20000) pseudo-random cache files of format versions 1-4 rendered by an independent writer (1..5 credentials incl. X-CACHECONF entries, 1..3 components, 0..2 addresses / authdata entries, key lengths 0..40, times over the signed 32-bit range, v4 header with 0..1 fields): Unmarshal yields every field written, GetEntries / GetEntry the right credentials, NewFromCCache a client holding every ticket with its own key and times")
		},
		Assumptions: []string{
			"isNativeEndianLittle (unsafe) is trusted; bytes.Buffer / binary.Read models are exact on the buffer contents (trusted stdlib)",
			"the readers have no error result: 'enough octets remain at the cursor' is their precondition; well-formed files satisfy it, the parser does not check it for arbitrary files (known finding of C04: credentials.read* / parse* / Unmarshal)",
			"time.Unix / Time.Unix are related by timeunix(time.Unix(s, 0)) = s",
		},
		NotDecided: []string{
			"the composition of the readers into parseHeader / parsePrincipal / parseCredential / Unmarshal for whole files of format versions 1 to 4 (a file-level well-formedness predicate and the version-dependent layout are not under contract), and client.NewFromCCache: covered by the bounded file-to-client stand-in only, not proved",
		},
		LevelNote: "Proved for every buffer, cursor and byte order: the ccache readers decode exactly the octets at the cursor - 8/16/32-bit integers in the file's byte order, counted octet strings (32-bit length then data, copied into a new slice), addresses and authorization-data entries (16-bit type, counted data), timestamps as sign-extended 32-bit seconds - and advance the cursor by exactly what they consumed; Contains / GetEntry decide by equality of all principal-name components and GetEntry returns the first such credential; GetEntries returns a new list whose elements are credentials of the cache, and none of the lookups writes to the cache.",
	}
	props["C16"] = &PropDef{
		Funcs: []string{
			`config.appendUntilFinal`, `config.randServOrder`, `(*config.Config).GetKDCs`, `(*config.Config).GetKpasswdServers`,
			`config.parseDuration`, `config.parseBoolean`, `config.parseETypes`, `(*config.Config).ResolveRealm`,
			`(*config.Realm).parseLines`, `config.parseRealms`, `(*config.LibDefaults).parseLines`, `(*config.DomainRealm).parseLines`, `(*config.DomainRealm).addMapping`,
		},
		Kinds:           kinds(append([]string{"table"}, contractKinds...)...),
		NeedObligations: true,
		QuickTimeout:    20,
		Extra: func(cc *checkCtx) []*Obligation {
			out := cc.finalFlagCheck()
			out = append(out, cc.boundedTest("config.ResolveRealm", "config", "resolverealm_test.go.txt", "^TestGowpBoundedResolveRealm$",
				"exhaustive: every host name of 1..4 labels over {a, b}, with and without a trailing dot, against every subset of 9 candidate [domain_realm] keys (30720 cases); ResolveRealm equals an independently written most-specific-match oracle")...)
			return out
		},
		Assumptions: []string{
			"strings / strconv / regexp functions are trusted stdlib contracts (lengths and containment only): the textual semantics of krb5.conf lines are not modelled",
			"math/rand.Intn returns 0 <= r < n",
		},
		NotDecided: []string{
			"that a krb5.conf using the documented MIT syntax loads with the documented values (booleans, durations, enctype lists, port defaults, domain mappings), rejection of structurally invalid files: these are statements about text (most-specific matching in ResolveRealm likewise: bounded exhaustive stand-in only), which the string model (uninterpreted strings with lengths) cannot express; the parsers are covered for memory safety and termination only (shared with C04)",
		},
		LevelNote: "Proved: appendUntilFinal appends nothing once the relation's final flag is set, otherwise appends exactly the value (without a trailing '*', which sets the flag) and keeps the earlier values; decided structurally over the current source: every multi-valued realm relation (kdc, master_kdc, admin_server, kpasswd_server) is parsed with a final-value flag of its own; KDC / kpasswd look-up returns every configured server under keys 1..n (set level) without writing to the configuration; the parsing functions are memory-safe and terminate on every input.",
	}
	props["C17"] = &PropDef{
		Funcs: []string{
			`(*gssapi.WrapToken).Marshal`, `(*gssapi.WrapToken).Unmarshal`, `(*gssapi.WrapToken).computeCheckSum`, `(*gssapi.WrapToken).Verify`,
			`(*gssapi.WrapToken).SetCheckSum`, `gssapi.getChecksumHeader`, `gssapi.NewInitiatorWrapToken`,
			`(*gssapi.MICToken).Marshal`, `(*gssapi.MICToken).Unmarshal`, `(*gssapi.MICToken).checksum`, `(*gssapi.MICToken).Verify`,
			`(*gssapi.MICToken).SetChecksum`, `(*gssapi.MICToken).getMICChecksumHeader`, `gssapi.NewInitiatorMICToken`,
			`crypto.GetEtype`, `\(crypto\.[A-Za-z0-9]+\)\.GetETypeID`, `\(crypto\.[A-Za-z0-9]+\)\.GetHMACBitLength`,
		},
		Kinds:           kinds(contractKinds...),
		NeedObligations: true,
		QuickTimeout:    20,
		Assumptions: []string{
			"the keyed checksum of an etype is the uninterpreted function et_cksum(etype, key, usage, data) given by the contract of etype.EType.GetChecksumHash; that the six implementations compute the RFC value is property C07; that distinct inputs give distinct checksums (so that every bit of header and payload matters) is the MAC assumption",
			"Seq values (byte sequences passed to uninterpreted primitives) are equal iff they have the same length and bytes (extensional reading; stated as facts by the models of bytes.Equal / hmac.Equal)",
		},
		NotDecided: []string{"interoperation with an independent implementation is covered only through the RFC 4121 layouts stated as postconditions"},
		LevelNote:  "Proved for every payload, flags byte, sequence number, key and usage: Marshal produces exactly the RFC 4121 4.2.6 layout; Unmarshal accepts exactly the byte strings with the right identifier, filler, direction flag and consistent EC and returns their fields; the checksum is et_cksum over { payload | header with EC=RRC=0 } (4.2.4); Verify returns true only if the token checksum equals that value; the initiator constructors use usages 24/25, flags 0.",
	}
	props["C07"] = &PropDef{
		Funcs: []string{
			`crypto/common.GetHash`, `crypto/common.GetChecksumHash`, `crypto/common.GetIntegrityHash`, `crypto/common.VerifyChecksum`,
			`crypto/common.getUsage`, `crypto/common.GetUsageKc`, `crypto/common.GetUsageKe`, `crypto/common.GetUsageKi`,
			`crypto/rfc4757.Checksum`, `crypto/rfc4757.HMAC`, `crypto/rfc4757.UsageToMSMsgType`,
			`\(crypto\.[A-Za-z0-9]+\)\.(GetChecksumHash|VerifyChecksum|GetHashID|GetHashFunc|GetHMACBitLength|DeriveKey)`,
			`crypto.GetChksumEtype`, `crypto.GetEtype`,
		},
		Kinds:           kinds(contractKinds...),
		NeedObligations: true,
		QuickTimeout:    20,
		Assumptions: []string{
			"HMAC and the hash functions are uninterpreted (hmac(fn,key,data), hashf(fn,data)); that they are HMAC-SHA1/SHA2/MD5 is not gokrb5 code",
			"key derivation et_dk is taken at the level of the etype's DeriveKey contract here; its RFC definition (DK / KDF-HMAC-SHA2 / HMAC-MD5) is discharged for rfc8009 and rc4 and composed over the uninterpreted DR for rfc3961 (C08)",
			"'not for other data, keys or usages' rests on the MAC assumption (distinct inputs give distinct MACs)",
		},
		LevelNote: "Proved for every key, usage and data: GetChecksumHash of each of the six types returns exactly et_cksum = truncate(HMAC(Kc, data)) with Kc = DK(key, be32(usage)|0x99) (RFC 3961 5.3, RFC 8009 5) or the RFC 4757 4 HMAC-MD5 composition with the Microsoft usage mapping; VerifyChecksum returns true only if the presented checksum equals that value (same length and bytes); checksum type ids map to the IANA-assigned families.",
	}
	props["C04"] = &PropDef{
		Funcs: []string{
			// decoders
			`\(\*?(messages|types|spnego|gssapi|pac|kadmin|keytab|credentials)\.[A-Za-z0-9]+\)\.Unmarshal`,
			`(messages|types|spnego|gssapi|pac|kadmin|keytab|credentials)\.[Uu]nmarshal[A-Za-z]*`,
			`types\.GetPAEncTSEncAsnMarshalled`,
			// crypto
			`crypto\.(DecryptMessage|DecryptEncPart|GetKeyFromPassword|GetEtype|GetChksumEtype|ParseDerivationSalt)`,
			`crypto/(rfc3961|rfc3962|rfc8009|rfc4757)\.[A-Za-z0-9]+`,
			`crypto/common\.[A-Za-z0-9]+`,
			`\(crypto\.[A-Za-z0-9]+\)\.[A-Za-z0-9]+`,
			// service side
			`\(\*messages\.APReq\)\.(Verify|DecryptAuthenticator)`, `\(\*messages\.Ticket\)\.(GetPACType|DecryptEncPart|Decrypt|Valid)`,
			`\(\*messages\.(ASRep|TGSRep)\)\.(Verify|DecryptEncPart)`, `\(\*messages\.(KRBPriv|KRBCred|EncAPRepPart)\)\.[A-Za-z]+`,
			`service\.VerifyAPREQ`, `\(service\.KRB5BasicAuthenticator\)\.Authenticate`, `service\.parseBasicHeaderValue`,
			`spnego\.SPNEGOKRB5Authenticate\$1`, `\(\*spnego\.SPNEGO\)\.AcceptSecContext`, `\(\*spnego\.[A-Za-z0-9]+\)\.Verify`,
			`spnego\.(UnmarshalNegToken|getAuthorizationNegotiationHeaderAsSPNEGOToken)`,
			// GSS
			`\(\*gssapi\.(WrapToken|MICToken)\)\.(Verify|Unmarshal|computeCheckSum|SetCheckSum)`,
			// files and configuration
			`keytab\.(Parse|readInt8|readInt16|readInt32|readBytes|readTimestamp|parsePrincipal)`, `\(\*keytab\.Keytab\)\.GetEncryptionKey`,
			`credentials\.(ParseCCache|parseHeader|parsePrincipal|parseCredential|read[A-Za-z0-9]+)`, `\(\*credentials\.CCache\)\.[A-Za-z0-9]+`,
			`config\.(NewFromString|NewFromReader|NewFromScanner|parse[A-Za-z]+|appendUntilFinal)`, `\(\*?config\.[A-Za-z]+\)\.(parseLines|ResolveRealm|GetKDCs|GetKpasswdServers|addMapping)`,
			`config\.randServOrder`,
			// KDC / kpasswd replies
			`\(\*client\.Client\)\.(sendToKDC|sendKDCTCP|sendKDCUDP|sendToKPasswd|ASExchange|TGSExchange|TGSREQGenerateAndExchange|ChangePasswd)`,
			`client\.(dialSendTCP|dialSendUDP|sendTCP|sendUDP|checkForKRBError|preAuthEType|setPAData)`,
			`\(\*kadmin\.Reply\)\.[A-Za-z]+`, `kadmin\.[A-Za-z]+`,
			// PAC
			`\(\*pac\.PACType\)\.[A-Za-z]+`, `\(\*pac\.[A-Za-z0-9]+\)\.(Unmarshal|[A-Za-z]+)`,
			// helpers
			`asn1tools\.[A-Za-z0-9]+`, `types\.(IsFlagSet|SetFlag|UnsetFlag)`, `\(\*?types\.[A-Za-z0-9]+\)\.[A-Za-z0-9]+`,
		},
		Closure:       true,
		SkipInlinable: true,
		Kinds:         kinds(safetyKinds...),
		AllocBound:    true,
		QuickTimeout:  8,
		Assumptions: []string{
			"trusted externals (gofork/asn1, rpc/v2 ndr+mstypes, regexp, bufio, stdlib crypto, net) do not panic, hang or over-allocate on any input: they are not verified here",
			"values returned by asn1.Unmarshal / ndr.Decode are arbitrary type-valid values (empty sequences included)",
			"allocation bound: every make() size is <= 64*(total length of byte/string inputs of the function) + 4096",
		},
		NotDecided: []string{"panics, hangs and allocations inside trusted dependencies", "functions outside the subset (channels, unsafe) are listed, not proved"},
		AllowUnsupported: map[string]bool{"(*client.Client).enableAutoSessionRenewal$1": true, "(*client.sessions).update": true, "(*client.session).destroy": true},
		Exclude:          []string{`service\.GetReplayCache\$1\$1`, `service\.GetReplayCache\$1`},
	}
}

// boundedTest runs an executable stand-in: the test source /verif/bounded/<file> is injected into the package
// directory with go test -overlay. A pass is recorded under bounded_standins (never counted as proved); a failure
// becomes an open obligation whose text carries the failing input printed by the test.
func (cc *checkCtx) boundedTest(name, pkgRel, file, run, bound string) []*Obligation {
	repo := os.Getenv("GOWP_REPO")
	if repo == "" {
		repo = "/repo/v8"
	}
	dir := filepath.Join(repo, pkgRel)
	src := filepath.Join(verifDir, "bounded", file)
	ov := map[string]map[string]string{"Replace": {filepath.Join(dir, "zz_gowp_bounded_test.go"): src}}
	ovb, _ := json.Marshal(ov)
	ovf := filepath.Join(ensureWorkDir(), "bounded_"+fileSafe.ReplaceAllString(name, "_")+".json")
	os.WriteFile(ovf, ovb, 0644)
	ctx, cancel := context.WithTimeout(context.Background(), 900*time.Second)
	defer cancel()
	t0 := time.Now()
	cmd := exec.CommandContext(ctx, "bash", "-c", "cd "+dir+" && go test -v -overlay "+ovf+" -vet=off -count=1 -timeout 800s -run '"+run+"' . 2>&1 | tail -30")
	cmd.Env = append(os.Environ(), "GOFLAGS=-mod=mod", "GOPROXY=off", "GOSUMDB=off", "GOTOOLCHAIN=local", "VERIF_TIER="+cc.tier, fmt.Sprintf("VERIF_SEED=%d", cc.seed))
	out, _ := cmd.CombinedOutput()
	s := string(out)
	cases := ""
	if i := strings.Index(s, "GOWP-BOUNDED-CASES "); i >= 0 {
		cases = strings.Fields(s[i+len("GOWP-BOUNDED-CASES "):])[0]
	}
	ok := strings.Contains(s, "--- PASS") && strings.Contains(s, "\nok ") && !strings.Contains(s, "GOWP-BOUNDED-FAIL")
	rec := map[string]interface{}{"name": name, "bound": bound, "cases": cases, "seconds": time.Since(t0).Seconds(), "result": "pass", "label": "bounded (not a proof)"}
	if !ok {
		rec["result"] = "fail"
	}
	cc.bounded = append(cc.bounded, rec)
	if ok {
		return nil
	}
	return []*Obligation{{Fn: name, Name: name + "#bounded", Kind: "bounded", Desc: "bounded stand-in " + name + " (" + bound + ")", Status: "failed", Raw: s}}
}

// asn1TableCheck compares the asn1 struct tags and field types of the structs handed to the ASN.1 codec with the
// RFC field tables in /verif/spec/asn1_tables.txt. It is an exact decision over the current source (kind "table"):
// one obligation per field listed in the table or tagged in the code.
func (cc *checkCtx) asn1TableCheck() []*Obligation {
	var out []*Obligation
	mk := func(name, desc string, ok bool, why string) {
		o := &Obligation{Fn: "asn1-table", Name: "table:" + name, Kind: "table", Desc: desc, Status: "discharged", Solver: "table"}
		if !ok {
			o.Status, o.Raw = "failed", why
		}
		out = append(out, o)
	}
	b, err := os.ReadFile(filepath.Join(verifDir, "spec", "asn1_tables.txt"))
	if err != nil {
		mk("asn1_tables.txt", "RFC table readable", false, err.Error())
		return out
	}
	type row struct {
		field, tag string
		attrs      map[string]bool
		minBits    int
	}
	var curName string
	tables := map[string][]row{}
	var order []string
	for _, l := range strings.Split(string(b), "\n") {
		if i := strings.Index(l, "#"); i >= 0 {
			l = l[:i]
		}
		if strings.TrimSpace(l) == "" {
			continue
		}
		if !strings.HasPrefix(l, " ") {
			curName = strings.TrimSpace(l)
			order = append(order, curName)
			continue
		}
		fs := strings.Fields(l)
		r := row{field: fs[0], tag: fs[1], attrs: map[string]bool{}}
		for _, a := range fs[2:] {
			if strings.HasPrefix(a, "int>=") {
				fmt.Sscanf(a, "int>=%d", &r.minBits)
			} else {
				r.attrs[a] = true
			}
		}
		tables[curName] = append(tables[curName], r)
	}
	for _, tn := range order {
		T := cc.P.lookupType(tn)
		if T == nil {
			mk(tn, "struct "+tn+" exists", false, "type not found in the current source")
			continue
		}
		st, ok := types.Unalias(T).Underlying().(*types.Struct)
		if !ok {
			mk(tn, "struct "+tn+" is a struct", false, "not a struct")
			continue
		}
		seen := map[string]bool{}
		for _, r := range tables[tn] {
			seen[r.field] = true
			idx := -1
			for i := 0; i < st.NumFields(); i++ {
				if st.Field(i).Name() == r.field {
					idx = i
				}
			}
			name := tn + "." + r.field
			if idx < 0 {
				mk(name, "field of the RFC table exists", false, "field missing in the struct")
				continue
			}
			tag := reflect.StructTag(st.Tag(idx)).Get("asn1")
			parts := map[string]bool{}
			tagNo := "-"
			for _, p := range strings.Split(tag, ",") {
				p = strings.TrimSpace(p)
				if strings.HasPrefix(p, "tag:") {
					tagNo = strings.TrimPrefix(p, "tag:")
				} else if p != "" {
					parts[p] = true
				}
			}
			var bad []string
			if tagNo != r.tag {
				bad = append(bad, "context tag "+tagNo+", RFC "+r.tag)
			}
			if r.tag != "-" && !parts["explicit"] {
				bad = append(bad, "not EXPLICIT")
			}
			if parts["optional"] != r.attrs["opt"] {
				bad = append(bad, fmt.Sprintf("optional=%v, RFC optional=%v", parts["optional"], r.attrs["opt"]))
			}
			if parts["generalstring"] != r.attrs["gstr"] {
				bad = append(bad, fmt.Sprintf("generalstring=%v, RFC KerberosString=%v", parts["generalstring"], r.attrs["gstr"]))
			}
			for _, other := range []string{"ia5", "printable", "utf8", "numeric"} {
				if parts[other] {
					bad = append(bad, "string type "+other+" (Kerberos strings are GeneralString)")
				}
			}
			if parts["generalized"] != r.attrs["time"] {
				bad = append(bad, fmt.Sprintf("generalized=%v, RFC KerberosTime=%v", parts["generalized"], r.attrs["time"]))
			}
			ft := types.Unalias(st.Field(idx).Type())
			if r.attrs["raw"] != strings.HasSuffix(types.TypeString(ft, nil), "asn1.RawValue") {
				bad = append(bad, "raw-value mismatch")
			}
			if r.minBits > 0 {
				bits := 0
				if bt, ok := ft.Underlying().(*types.Basic); ok {
					switch bt.Kind() {
					case types.Int, types.Int64, types.Uint64, types.Uint:
						bits = 64
					case types.Int32:
						bits = 32
					case types.Uint32:
						bits = 33
					case types.Int16:
						bits = 16
					case types.Int8:
						bits = 8
					}
				}
				if bits < r.minBits {
					bad = append(bad, fmt.Sprintf("Go type %s holds %d bits, the RFC range needs %d", ft, bits, r.minBits))
				}
			}
			mk(name, "asn1 tag and type of "+name+" match the RFC table ("+tag+")", len(bad) == 0, strings.Join(bad, "; "))
		}
		for i := 0; i < st.NumFields(); i++ {
			if !seen[st.Field(i).Name()] && strings.Contains(reflect.StructTag(st.Tag(i)).Get("asn1"), "tag:") {
				mk(tn+"."+st.Field(i).Name(), "tagged field is in the RFC table", false, "field carries a context tag but is not in the RFC table")
			}
		}
	}
	return out
}

// ---------- C20: secrets do not flow into formatted text or JSON (type-level labels) ----------

// secretFields: the fields that hold key material or passwords (the label source table).
var secretFields = map[string]string{
	"types.EncryptionKey.KeyValue":     "key octets (long-term keys, session keys and subkeys are all of this type)",
	"credentials.Credentials.password": "password",
}

// secretPath returns a field path to a secret reachable from a value of type t the way fmt's %v / %+v / %s would
// print it (every field, exported or not, through pointers, slices, arrays and maps), or "" if none. json=true
// follows encoding/json instead: exported fields only, fields tagged json:"-" skipped.
func secretPath(t types.Type, json bool, seen map[string]bool, depth int) string {
	t = types.Unalias(t)
	k := typeKey(t)
	if seen[k] || depth > 12 {
		return ""
	}
	seen[k] = true
	defer delete(seen, k)
	if isTimeType(t) {
		return ""
	}
	switch u := t.Underlying().(type) {
	case *types.Pointer:
		return secretPath(u.Elem(), json, seen, depth+1)
	case *types.Slice:
		return secretPath(u.Elem(), json, seen, depth+1)
	case *types.Array:
		return secretPath(u.Elem(), json, seen, depth+1)
	case *types.Map:
		if p := secretPath(u.Elem(), json, seen, depth+1); p != "" {
			return p
		}
		return secretPath(u.Key(), json, seen, depth+1)
	case *types.Struct:
		tn := shortName(types.TypeString(t, nil))
		for i := 0; i < u.NumFields(); i++ {
			f := u.Field(i)
			if json {
				if !f.Exported() || reflect.StructTag(u.Tag(i)).Get("json") == "-" {
					continue
				}
			}
			if what, ok := secretFields[tn+"."+f.Name()]; ok {
				return tn + "." + f.Name() + " (" + what + ")"
			}
			if p := secretPath(f.Type(), json, seen, depth+1); p != "" {
				return tn + "." + f.Name() + " -> " + p
			}
		}
	}
	return ""
}

var fmtSinks = map[string]int{ // function -> index of the first formatted / printed operand
	"fmt.Errorf": 1, "fmt.Sprintf": 1, "fmt.Printf": 1, "fmt.Fprintf": 2, "fmt.Sprint": 0, "fmt.Sprintln": 0, "fmt.Fprint": 1, "fmt.Fprintln": 1, "fmt.Println": 0, "fmt.Print": 0,
	"log.Printf": 1, "log.Println": 0, "log.Print": 0, "log.Fatalf": 1, "log.Fatal": 0,
	"(*log.Logger).Printf": 2, "(*log.Logger).Println": 1, "(*log.Logger).Print": 1, "(*log.Logger).Fatalf": 2,
	"krberror.Errorf": 3, "krberror.NewErrorf": 2, "(*client.Client).Log": 2, "(*spnego.SPNEGO).Log": 2,
	"spnego.spnegoNegotiateKRB5MechType": 3, "spnego.spnegoResponseReject": 3, "spnego.spnegoResponseAcceptCompleted": 3, "spnego.spnegoInternalServerError": 3,
}

var jsonSinks = map[string]bool{"encoding/json.Marshal": true, "encoding/json.MarshalIndent": true}

// labelCheck: one obligation per operand handed to a formatting / logging / JSON sink anywhere in the library:
// its static type must not reach a secret field (exact decision over go/ssa and go/types; kind "label").
func (cc *checkCtx) labelCheck() []*Obligation {
	var out []*Obligation
	n := map[string]int{}
	var names []string
	for name := range cc.P.Funcs {
		names = append(names, name)
	}
	sort.Strings(names)
	for _, name := range names {
		f := cc.P.Funcs[name]
		if f == nil || !inRepo(f) || len(f.Blocks) == 0 {
			continue
		}
		file := cc.P.Fset.Position(f.Pos()).Filename
		if strings.HasSuffix(file, "_test.go") || strings.Contains(file, "/examples/") || strings.Contains(file, "/test/") {
			continue
		}
		for _, b := range f.Blocks {
			for _, in := range b.Instrs {
				ci, ok := in.(ssa.CallInstruction)
				if !ok {
					continue
				}
				c := ci.Common()
				callee := c.StaticCallee()
				if callee == nil {
					continue
				}
				cn := fnName(callee)
				first, isFmt := fmtSinks[cn]
				if !isFmt && !jsonSinks[cn] {
					continue
				}
				args := c.Args
				var ops []ssa.Value
				if isFmt {
					// operands: the explicit ones from index first, variadic ones unpacked from the slice literal
					for i := first; i < len(args); i++ {
						ops = append(ops, variadicElems(args[i])...)
					}
				} else {
					ops = append(ops, args[0])
				}
				for _, op := range ops {
					t := op.Type()
					if mi, ok := op.(*ssa.MakeInterface); ok {
						t = mi.X.Type()
					}
					path := secretPath(t, !isFmt, map[string]bool{}, 0)
					key := name + "#label:" + cn
					n[key]++
					o := &Obligation{Fn: name, Name: fmt.Sprintf("%s[%d]", key, n[key]), Kind: "label", Status: "discharged", Solver: "labels",
						Desc: fmt.Sprintf("operand of type %s handed to %s at %s reaches no secret field", shortName(types.TypeString(t, nil)), cn, cc.P.posString(in.Pos()))}
					if path != "" {
						o.Status, o.Raw = "failed", "secret reachable: "+path
					}
					out = append(out, o)
				}
			}
		}
	}
	return out
}

// variadicElems: the values stored into the slice literal of a variadic call (or the value itself).
func variadicElems(v ssa.Value) []ssa.Value {
	sl, ok := v.(*ssa.Slice)
	if !ok {
		return []ssa.Value{v}
	}
	al, ok := sl.X.(*ssa.Alloc)
	if !ok {
		return []ssa.Value{v}
	}
	var out []ssa.Value
	for _, r := range *al.Referrers() {
		ia, ok := r.(*ssa.IndexAddr)
		if !ok {
			continue
		}
		for _, rr := range *ia.Referrers() {
			if st, ok := rr.(*ssa.Store); ok {
				out = append(out, st.Val)
			}
		}
	}
	if len(out) == 0 {
		return []ssa.Value{v}
	}
	return out
}

// finalFlagCheck (C16): krb5.conf's final-value marker ('*') ends the list of ONE relation (kdc, admin_server, ...).
// Structural decision over go/ssa: every call of appendUntilFinal passes the address of a struct field as the list
// and a local flag; distinct list fields must use distinct flags and one field always the same flag.
func (cc *checkCtx) finalFlagCheck() []*Obligation {
	var out []*Obligation
	type use struct {
		field string
		flag  ssa.Value
		pos   string
	}
	var uses []use
	for _, f := range cc.P.Funcs {
		if f == nil || !inRepo(f) {
			continue
		}
		for _, b := range f.Blocks {
			for _, in := range b.Instrs {
				ci, ok := in.(ssa.CallInstruction)
				if !ok {
					continue
				}
				c := ci.Common()
				callee := c.StaticCallee()
				if callee == nil || fnName(callee) != "config.appendUntilFinal" || len(c.Args) != 3 {
					continue
				}
				fa, ok := c.Args[0].(*ssa.FieldAddr)
				if !ok {
					out = append(out, &Obligation{Fn: fnName(f), Name: fnName(f) + "#table:final-flag@" + cc.P.posString(in.Pos()), Kind: "table", Status: "failed", Solver: "table",
						Desc: "the list passed to appendUntilFinal is a struct field", Raw: "not a field address"})
					continue
				}
				st := types.Unalias(deref(fa.X.Type())).Underlying().(*types.Struct)
				uses = append(uses, use{field: st.Field(fa.Field).Name(), flag: c.Args[2], pos: cc.P.posString(in.Pos())})
			}
		}
	}
	sort.Slice(uses, func(i, j int) bool { return uses[i].pos < uses[j].pos })
	for i, u := range uses {
		o := &Obligation{Fn: "config.appendUntilFinal", Name: "config.appendUntilFinal#table:final-flag:" + u.field, Kind: "table", Status: "discharged", Solver: "table",
			Desc: "relation " + u.field + " has a final-value flag of its own (call at " + u.pos + ")"}
		for j, v := range uses {
			if i == j {
				continue
			}
			if (u.field == v.field) != (u.flag == v.flag) {
				o.Status, o.Raw = "failed", fmt.Sprintf("%s at %s and %s at %s: same relation must mean same flag, different relations different flags", u.field, u.pos, v.field, v.pos)
			}
		}
		out = append(out, o)
	}
	if len(uses) == 0 {
		out = append(out, &Obligation{Fn: "config.appendUntilFinal", Name: "config.appendUntilFinal#table:final-flag", Kind: "table", Status: "failed", Solver: "table",
			Desc: "appendUntilFinal call sites found", Raw: "no call sites: the structural check is vacuous"})
	}
	return out
}

// chanSendCheck (C11): every blocking send in the package goes to a channel held in a struct field, and every creation
// site of that field's channels in the package has a constant capacity >= 1, so that the (single) send made while a
// mutex is held cannot block on a receiver that has gone away. One obligation per send site.
func (cc *checkCtx) chanSendCheck(pkg string) []*Obligation {
	var out []*Obligation
	type fieldKey struct {
		t string
		f int
	}
	fieldOf := func(v ssa.Value) (fieldKey, bool) {
		if u, ok := v.(*ssa.UnOp); ok && u.Op == token.MUL {
			if fa, ok := u.X.(*ssa.FieldAddr); ok {
				return fieldKey{types.TypeString(fa.X.Type(), nil), fa.Field}, true
			}
		}
		return fieldKey{}, false
	}
	var fns []*ssa.Function
	var add func(f *ssa.Function)
	add = func(f *ssa.Function) {
		fns = append(fns, f)
		for _, an := range f.AnonFuncs {
			add(an)
		}
	}
	var names []string
	for n, f := range cc.P.Funcs {
		if f.Pkg != nil && shortName(f.Pkg.Pkg.Path()) == pkg && f.Parent() == nil && len(f.Blocks) > 0 {
			names = append(names, n)
		}
	}
	sort.Strings(names)
	for _, n := range names {
		add(cc.P.Funcs[n])
	}
	// creation sites per field
	caps := map[fieldKey][]string{} // "" ok, otherwise the reason it is not
	for _, f := range fns {
		for _, b := range f.Blocks {
			for _, in := range b.Instrs {
				st, ok := in.(*ssa.Store)
				if !ok {
					continue
				}
				fa, ok := st.Addr.(*ssa.FieldAddr)
				if !ok {
					continue
				}
				if _, isChan := types.Unalias(st.Val.Type()).Underlying().(*types.Chan); !isChan {
					continue
				}
				k := fieldKey{types.TypeString(fa.X.Type(), nil), fa.Field}
				v := st.Val
				if ct, ok := v.(*ssa.ChangeType); ok {
					v = ct.X
				}
				why := ""
				switch mc := v.(type) {
				case *ssa.MakeChan:
					c, isConst := mc.Size.(*ssa.Const)
					if !isConst || c.Int64() < 1 {
						why = "created with capacity " + mc.Size.String() + " at " + cc.P.posString(mc.Pos())
					}
				case *ssa.Const:
					// nil: no channel
					continue
				default:
					why = "assigned a channel of unknown origin at " + cc.P.posString(in.Pos())
				}
				caps[k] = append(caps[k], why)
			}
		}
	}
	site := 0
	check := func(f *ssa.Function, ch ssa.Value, pos token.Pos) {
		site++
		o := &Obligation{Fn: fnName(f), Name: fmt.Sprintf("%s#table:chan-send[%d]", fnName(f), site), Kind: "table", Status: "discharged", Solver: "table",
			Desc: "a blocking channel send goes to a channel field all of whose creation sites have capacity >= 1 @ " + cc.P.posString(pos)}
		k, ok := fieldOf(ch)
		switch {
		case !ok:
			o.Status, o.Raw = "failed", "the channel sent to is not read from a struct field: "+ch.String()
		case len(caps[k]) == 0:
			o.Status, o.Raw = "failed", "no creation site of the channel field found in package "+pkg
		default:
			for _, why := range caps[k] {
				if why != "" {
					o.Status, o.Raw = "failed", "the channel can be "+why+": a send made while a mutex is held blocks for ever once the receiver has gone"
				}
			}
		}
		out = append(out, o)
	}
	for _, f := range fns {
		for _, b := range f.Blocks {
			for _, in := range b.Instrs {
				switch x := in.(type) {
				case *ssa.Send:
					check(f, x.Chan, x.Pos())
				case *ssa.Select:
					if x.Blocking {
						for _, st := range x.States {
							if st.Dir == types.SendOnly {
								check(f, st.Chan, st.Pos)
							}
						}
					}
				}
			}
		}
	}
	if len(out) == 0 {
		out = append(out, &Obligation{Fn: pkg, Name: pkg + "#table:chan-send", Kind: "table", Status: "failed", Solver: "table",
			Desc: "channel sends of package " + pkg, Raw: "no channel send found: the structural check is vacuous"})
	}
	return out
}

// cleanupArgCheck (C02): the clean-up goroutine started by GetReplayCache must evict with the skew it was given.
// Structural decision over go/ssa: the duration passed to Cache.ClearOldEntries inside the goroutine is the
// parameter d of GetReplayCache itself (captured unchanged), not a value derived from it.
func (cc *checkCtx) cleanupArgCheck() []*Obligation {
	mk := func(ok bool, why string) []*Obligation {
		o := &Obligation{Fn: "service.GetReplayCache", Name: "service.GetReplayCache#table:cleanup-skew", Kind: "table", Status: "discharged", Solver: "table",
			Desc: "the clean-up goroutine calls ClearOldEntries with GetReplayCache's own parameter d"}
		if !ok {
			o.Status, o.Raw = "failed", why
		}
		return []*Obligation{o}
	}
	root := cc.P.Funcs["service.GetReplayCache"]
	if root == nil || len(root.Params) != 1 {
		return mk(false, "service.GetReplayCache(d) not found")
	}
	// resolve a value through closure captures up to the enclosing functions
	var resolve func(fn *ssa.Function, v ssa.Value, depth int) ssa.Value
	resolve = func(fn *ssa.Function, v ssa.Value, depth int) ssa.Value {
		fv, ok := v.(*ssa.FreeVar)
		if !ok || depth > 4 || fn.Parent() == nil {
			return v
		}
		idx := -1
		for i, x := range fn.FreeVars {
			if x == fv {
				idx = i
			}
		}
		if idx < 0 {
			return v
		}
		for _, b := range fn.Parent().Blocks {
			for _, in := range b.Instrs {
				if mc, ok := in.(*ssa.MakeClosure); ok && mc.Fn == ssa.Value(fn) && idx < len(mc.Bindings) {
					return resolve(fn.Parent(), mc.Bindings[idx], depth+1)
				}
			}
		}
		return v
	}
	// every store to a cell, in the function and its closures
	var storesTo func(fn *ssa.Function, cell ssa.Value) []*ssa.Store
	storesTo = func(fn *ssa.Function, cell ssa.Value) []*ssa.Store {
		var out []*ssa.Store
		for _, b := range fn.Blocks {
			for _, in := range b.Instrs {
				if st, ok := in.(*ssa.Store); ok && resolve(fn, st.Addr, 0) == cell {
					out = append(out, st)
				}
			}
		}
		for _, an := range fn.AnonFuncs {
			out = append(out, storesTo(an, cell)...)
		}
		return out
	}
	// the value is the parameter d: directly, or a load of the cell the parameter was spilled to for capture by
	// reference, that cell being written once, with d
	var isParamN func(fn *ssa.Function, v ssa.Value, depth int) bool
	isParamN = func(fn *ssa.Function, v ssa.Value, depth int) bool {
		if depth > 4 {
			return false
		}
		if u, ok := v.(*ssa.UnOp); ok && u.Op == token.MUL {
			cell := resolve(fn, u.X, 0)
			if al, ok := cell.(*ssa.Alloc); ok && al.Parent() != nil {
				sts := storesTo(root, al)
				// a copy of d (skew := d) is d
				return len(sts) == 1 && isParamN(sts[0].Parent(), sts[0].Val, depth+1)
			}
			return false
		}
		return resolve(fn, v, 0) == ssa.Value(root.Params[0])
	}
	isParam := func(fn *ssa.Function, v ssa.Value) bool { return isParamN(fn, v, 0) }
	found := 0
	var visit func(fn *ssa.Function) (bool, string)
	visit = func(fn *ssa.Function) (bool, string) {
		for _, b := range fn.Blocks {
			for _, in := range b.Instrs {
				if ci, ok := in.(ssa.CallInstruction); ok {
					c := ci.Common()
					if callee := c.StaticCallee(); callee != nil && fnName(callee) == "(*service.Cache).ClearOldEntries" && len(c.Args) == 2 {
						found++
						if !isParam(fn, c.Args[1]) {
							return false, "ClearOldEntries is called with " + c.Args[1].String() + " at " + cc.P.posString(in.Pos()) + ", not with the parameter d"
						}
					}
				}
			}
		}
		for _, an := range fn.AnonFuncs {
			if ok, why := visit(an); !ok {
				return false, why
			}
		}
		return true, ""
	}
	ok, why := visit(root)
	if ok && found == 0 {
		return mk(false, "no call of ClearOldEntries inside GetReplayCache: the structural check is vacuous")
	}
	return mk(ok, why)
}
