package main

// Per-function verification driver: entry state, Houdini rounds for inferred loop invariants,
// solving, result collection.

import (
	"fmt"
	"math/big"
	"runtime/debug"
	"sort"
	"strings"
	"time"

	"golang.org/x/tools/go/ssa"
)

type bigInt = big.Int

var one = big.NewInt(1)

type FnResult struct {
	Fn          string
	Obls        []*Obligation
	Notes       []string
	Trusted     []string
	Unsupported string
	AutoInv     []string
	Secs        float64
	Rounds      int
	HasContract bool
}

type VerifyOpts struct {
	TimeoutS int
	Workers  int
	Keep     bool
	NoAuto   bool
	Hooks    func(e *Exec) // property-specific hooks (locks, labels)
}

func (e *Exec) setupEntry() {
	fn := e.fn
	ac0 := e.vc.Fresh("ac", SInt)
	e.vc.Assume(True, IntLt(IntLit(0), ac0))
	e.st = &State{heaps: map[string]*Term{}, cells: map[*CellKey]*Term{}, ac: ac0, held: map[string]*Term{}}
	e.g = True
	for _, p := range fn.Params {
		v := e.havocVal(p.Name(), p.Type(), nil)
		if ptr, ok := v.(*Ptr); ok {
			// receivers and pointer parameters are assumed non-nil unless the contract says otherwise
			ptr.NonNil = true
			e.vc.Assume(True, IntLt(IntLit(0), ptr.Ref))
		}
		e.regs[p] = v
		e.params = append(e.params, v)
		if t, ok := v.(*Term); ok {
			e.root.inputs = append(e.root.inputs, t)
		} else if ptr, ok := v.(*Ptr); ok {
			e.root.inputs = append(e.root.inputs, ptr.Ref)
		}
	}
	for _, fv := range fn.FreeVars {
		// captured variables are pointers to heap cells
		v := e.havocVal(fv.Name(), fv.Type(), nil)
		if ptr, ok := v.(*Ptr); ok {
			ptr.NonNil = true
			e.vc.Assume(True, IntLt(IntLit(0), ptr.Ref))
		}
		e.regs[fv] = v
		e.params = append(e.params, v)
	}
	e.st0 = e.st.clone()
	if e.con != nil {
		env := e.paramEnv(e.st, nil)
		for _, rq := range e.con.Requires {
			t, err := env.EvalBool(rq.E)
			if err != nil {
				o := e.vc.Oblige("contract", "requires", "cannot evaluate precondition "+rq.Text+": "+err.Error(), rq.Line, True, False, nil)
				o.Status = "unknown"
				o.Raw = err.Error()
				continue
			}
			e.vc.Assume(True, t)
		}
	}
}

func (p *Program) newRootExec(f *ssa.Function, opts *Options, vo *VerifyOpts) *Exec {
	vc := NewVC(fnName(f), p.Specs)
	e := &Exec{P: p, vc: vc, fn: f, con: p.Contracts[fnName(f)], opts: opts,
		root: &rootCtx{heap0: map[string]*Term{}, heapSorts: map[string]string{}, strLits: map[string]*Term{}, candObls: map[string][]*Obligation{}},
		regs: map[ssa.Value]Val{}, guard: map[*ssa.BasicBlock]*Term{}, out: map[*ssa.BasicBlock]*State{}, brCond: map[*ssa.BasicBlock]*Term{}}
	if vo != nil && vo.Hooks != nil {
		vo.Hooks(e)
	}
	return e
}

// VerifyFunction generates and discharges all obligations of one function.
func (p *Program) VerifyFunction(f *ssa.Function, vo *VerifyOpts) (res *FnResult) {
	t0 := time.Now()
	res = &FnResult{Fn: fnName(f), HasContract: p.Contracts[fnName(f)] != nil}
	defer func() { res.Secs = time.Since(t0).Seconds() }()
	opts := &Options{Disabled: map[string]bool{}, NoAuto: vo.NoAuto}
	var e *Exec
	for round := 0; round < 8; round++ {
		res.Rounds = round + 1
		e = p.newRootExec(f, opts, vo)
		var failure string
		func() {
			defer func() {
				if r := recover(); r != nil {
					switch x := r.(type) {
					case unsupportedErr:
						failure = x.msg
					default:
						failure = fmt.Sprintf("engine error: %v\n%s", r, trunc(string(debug.Stack()), 3000))
					}
				}
			}()
			e.setupEntry()
			e.runBody()
			e.finish()
		}()
		if failure != "" {
			res.Unsupported = failure
			return res
		}
		// Houdini: drop inferred candidates that fail
		var cands []*Obligation
		for _, os := range e.root.candObls {
			cands = append(cands, os...)
		}
		if len(cands) == 0 {
			break
		}
		SolveAll(cands, 3, vo.Workers, false)
		dropped := false
		for key, os := range e.root.candObls {
			for _, o := range os {
				if o.Status != "discharged" && o.Status != "trivial" {
					if !opts.Disabled[key] {
						opts.Disabled[key] = true
						dropped = true
					}
				}
			}
		}
		if !dropped {
			break
		}
	}
	var obls []*Obligation
	for _, o := range e.vc.Obls {
		if o.Kind == "cand" {
			continue
		}
		obls = append(obls, o)
	}
	// accepted inferred invariants
	seen := map[string]bool{}
	for key, os := range e.root.candObls {
		if opts.Disabled[key] || seen[key] {
			continue
		}
		seen[key] = true
		if len(os) > 0 {
			res.AutoInv = append(res.AutoInv, strings.TrimSuffix(strings.TrimSuffix(os[0].Desc, " (entry)"), " (preserved)"))
		}
	}
	sort.Strings(res.AutoInv)
	var todo []*Obligation
	for _, o := range obls {
		if o.Status == "" {
			todo = append(todo, o)
		}
	}
	SolveAll(todo, vo.TimeoutS, vo.Workers, vo.Keep)
	res.Obls = obls
	res.Notes = e.vc.Notes
	for t := range e.vc.Trusted {
		res.Trusted = append(res.Trusted, t)
	}
	sort.Strings(res.Trusted)
	return res
}
