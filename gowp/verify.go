package main

// Per-function verification driver: entry state, Houdini rounds for inferred loop invariants,
// solving, result collection.

import (
	"fmt"
	"go/types"
	"math/big"
	"runtime/debug"
	"sort"
	"strings"
	"time"

	"golang.org/x/tools/go/ssa"
)

type bigInt = big.Int

var one = big.NewInt(1)

type FnResult struct {
	Fn          string
	Obls        []*Obligation
	Notes       []string
	Trusted     []string
	Unsupported string
	AutoInv     []string
	Secs        float64
	Rounds      int
	HasContract bool
	IsTrusted   bool
}

type VerifyOpts struct {
	TimeoutS int
	Workers  int
	Keep     bool
	NoAuto   bool
	Hooks    func(e *Exec) // property-specific hooks (locks, labels)
	Alloc    bool          // generate allocation-bound obligations
	NoRetry  func(name string) bool // obligations expected to fail (known findings): no long retry
}

func (e *Exec) setupEntry() {
	fn := e.fn
	ac0 := e.vc.Fresh("ac", SInt)
	e.vc.Assume(True, IntLt(IntLit(0), ac0))
	e.st = &State{heaps: map[string]*Term{}, cells: map[*CellKey]*Term{}, ac: ac0, held: map[string]*Term{}}
	e.root.ac0 = ac0
	e.g = True
	for _, p := range fn.Params {
		v := e.havocVal(p.Name(), p.Type(), nil)
		if ptr, ok := v.(*Ptr); ok {
			// receivers and pointer parameters are assumed non-nil unless the contract says otherwise
			ptr.NonNil = true
			e.vc.Assume(True, IntLt(IntLit(0), ptr.Ref))
		}
		e.regs[p] = v
		e.params = append(e.params, v)
		if e.root.paramSyms == nil {
			e.root.paramSyms = map[string]bool{}
		}
		if t, ok := v.(*Term); ok {
			e.root.inputs = append(e.root.inputs, t)
			if t.Op == "sym" {
				e.root.paramSyms[t.Name] = true
			}
		} else if ptr, ok := v.(*Ptr); ok {
			e.root.inputs = append(e.root.inputs, ptr.Ref)
			if ptr.Ref.Op == "sym" {
				e.root.paramSyms[ptr.Ref.Name] = true
			}
		}
	}
	for _, fv := range fn.FreeVars {
		// captured variables are pointers to heap cells
		v := e.havocVal(fv.Name(), fv.Type(), nil)
		if ptr, ok := v.(*Ptr); ok {
			ptr.NonNil = true
			e.vc.Assume(True, IntLt(IntLit(0), ptr.Ref))
		}
		e.regs[fv] = v
		e.params = append(e.params, v)
	}
	e.st0 = e.st.clone()
	if e.allocOn {
		e.inSize = e.inputSize()
	}
	if e.con != nil {
		env := e.paramEnv(e.st, nil)
		for _, rq := range e.con.Requires {
			t, err := env.EvalBool(rq.E)
			if err != nil {
				o := e.vc.Oblige("contract", "requires", "cannot evaluate precondition "+rq.Text+": "+err.Error(), rq.Line, True, False, nil)
				o.Status = "unknown"
				o.Raw = err.Error()
				continue
			}
			e.vc.Assume(True, t)
		}
	}
}

func (p *Program) newRootExec(f *ssa.Function, opts *Options, vo *VerifyOpts) *Exec {
	vc := NewVC(fnName(f), p.Specs)
	con, ifc := p.contractFor(f)
	e := &Exec{P: p, vc: vc, fn: f, con: con, ifaceCon: ifc, opts: opts,
		root: &rootCtx{heap0: map[string]*Term{}, heapSorts: map[string]string{}, strLits: map[string]*Term{}, candObls: map[string][]*Obligation{}},
		regs: map[ssa.Value]Val{}, guard: map[*ssa.BasicBlock]*Term{}, out: map[*ssa.BasicBlock]*State{}, brCond: map[*ssa.BasicBlock]*Term{}}
	vc.rootExec = e
	if vo != nil && vo.Hooks != nil {
		vo.Hooks(e)
	}
	if vo != nil {
		e.allocOn = vo.Alloc
	}
	return e
}

// VerifyFunction generates and discharges all obligations of one function.
func (p *Program) VerifyFunction(f *ssa.Function, vo *VerifyOpts) (res *FnResult) {
	t0 := time.Now()
	cf, _ := p.contractFor(f)
	res = &FnResult{Fn: fnName(f), HasContract: cf != nil}
	defer func() { res.Secs = time.Since(t0).Seconds() }()
	if cf != nil && cf.Trusted != "" {
		res.Trusted = []string{"body of " + res.Fn + " not verified: " + cf.Trusted}
		res.IsTrusted = true
		return res
	}
	opts := &Options{Disabled: map[string]bool{}, NoAuto: vo.NoAuto}
	var e *Exec
	for round := 0; round < 8; round++ {
		res.Rounds = round + 1
		e = p.newRootExec(f, opts, vo)
		var failure string
		func() {
			defer func() {
				if r := recover(); r != nil {
					switch x := r.(type) {
					case unsupportedErr:
						failure = x.msg
					default:
						failure = fmt.Sprintf("engine error: %v\n%s", r, trunc(string(debug.Stack()), 3000))
					}
				}
			}()
			e.setupEntry()
			e.runBody()
			e.finish()
		}()
		if failure != "" {
			res.Unsupported = failure
			return res
		}
		// Houdini: drop inferred candidates that fail
		var cands []*Obligation
		for _, os := range e.root.candObls {
			cands = append(cands, os...)
		}
		if len(cands) == 0 {
			break
		}
		SolveAll(cands, 4, vo.Workers, vo.Keep)
		// a candidate that only timed out is retried once with a longer limit before it is dropped, so that
		// machine load does not change which invariants are inferred
		var retry []*Obligation
		for _, o := range cands {
			if o.Status == "unknown" {
				o.Status = ""
				retry = append(retry, o)
			}
		}
		if len(retry) > 0 {
			SolveAll(retry, 15, 2, vo.Keep)
		}
		dropped := false
		for key, os := range e.root.candObls {
			for _, o := range os {
				if o.Status != "discharged" && o.Status != "trivial" {
					if !opts.Disabled[key] {
						opts.Disabled[key] = true
						dropped = true
					}
				}
			}
		}
		if !dropped {
			break
		}
	}
	var obls []*Obligation
	for _, o := range e.vc.Obls {
		if o.Kind == "cand" {
			continue
		}
		obls = append(obls, o)
	}
	// accepted inferred invariants
	seen := map[string]bool{}
	for key, os := range e.root.candObls {
		if opts.Disabled[key] || seen[key] {
			continue
		}
		seen[key] = true
		if len(os) > 0 {
			res.AutoInv = append(res.AutoInv, strings.TrimSuffix(strings.TrimSuffix(os[0].Desc, " (entry)"), " (preserved)"))
		}
	}
	sort.Strings(res.AutoInv)
	var todo []*Obligation
	for _, o := range obls {
		if o.Status == "" {
			todo = append(todo, o)
		}
	}
	SolveAll(todo, vo.TimeoutS, vo.Workers, vo.Keep)
	// timeouts are retried once with a longer limit (a loaded machine must not turn into an alarm)
	var again []*Obligation
	for _, o := range todo {
		if o.timedOut && (vo.NoRetry == nil || !vo.NoRetry(o.Name)) {
			o.Status = ""
			again = append(again, o)
		}
	}
	if len(again) > 0 {
		SolveAll(again, 3*vo.TimeoutS, 4, vo.Keep)
	}
	res.Obls = obls
	res.Notes = e.vc.Notes
	for t := range e.vc.Trusted {
		res.Trusted = append(res.Trusted, t)
	}
	sort.Strings(res.Trusted)
	return res
}

// inputSize: sum of the lengths of []byte / string parameters and of the []byte / string fields
// (one level, through pointers) of struct parameters.
func (e *Exec) inputSize() *Term {
	sum := bv64zero
	add := func(t *Term) { sum = BVAdd(sum, t) }
	var walk func(v *Term, t types.Type, depth int)
	walk = func(v *Term, t types.Type, depth int) {
		t = types.Unalias(t)
		switch u := t.Underlying().(type) {
		case *types.Basic:
			if isString(t) {
				add(StrLen(v))
			}
		case *types.Slice:
			add(SlLen(v))
		case *types.Struct:
			if depth >= 2 || isTimeType(t) {
				return
			}
			si := structInfo(t)
			for i, f := range si.Fields {
				walk(FieldSel(si, v, i), f.GoT, depth+1)
			}
		case *types.Pointer:
			if depth >= 1 {
				return
			}
			if _, ok := types.Unalias(u.Elem()).Underlying().(*types.Struct); ok {
				n, s := objHeap(u.Elem())
				obj := e.vc.Define("in", Select(e.heapGet(n, s), v))
				e.vc.Assume(True, invOf(u.Elem(), obj, e.st.ac))
				walk(obj, u.Elem(), depth+1)
			}
		}
	}
	for i, p := range e.fn.Params {
		func() {
			defer func() { recover() }()
			walk(e.toTermQuiet(e.params[i], p.Type()), p.Type(), 0)
		}()
	}
	return e.vc.Define("insize", sum)
}

// contractFor: the function's own contract, or the contract of an interface method it implements
// (behavioural subtyping: every repository implementation is verified against the interface contract).
func (p *Program) contractFor(f *ssa.Function) (*Contract, types.Type) {
	if c := p.Contracts[fnName(f)]; c != nil {
		return c, nil
	}
	if f.Signature.Recv() == nil {
		return nil, nil
	}
	recv := f.Signature.Recv().Type()
	for key, c := range p.Contracts {
		if !strings.HasSuffix(key, ")."+f.Name()) || !strings.HasPrefix(key, "(") {
			continue
		}
		it := p.lookupType(key[1:strings.LastIndex(key, ")")])
		if it == nil {
			continue
		}
		if iface, ok := it.Underlying().(*types.Interface); ok && types.Implements(recv, iface) {
			return c, it
		}
	}
	return nil, nil
}
