package main

// Go type -> SMT sort mapping, struct datatypes, zero values, type invariants.

import (
	"regexp"
	"crypto/sha1"
	"fmt"
	"go/types"
	"sort"
	"strings"
	"sync"
)

const modPrefix = "github.com/jcmturner/gokrb5/v8/"

func mangle(s string) string {
	s = strings.ReplaceAll(s, modPrefix, "")
	s = strings.ReplaceAll(s, "github.com/jcmturner/", "jc.")
	var sb strings.Builder
	special := false
	for _, c := range s {
		switch {
		case c >= 'a' && c <= 'z', c >= 'A' && c <= 'Z', c >= '0' && c <= '9', c == '_', c == '.':
			sb.WriteRune(c)
		case c == '/':
			sb.WriteByte('.')
		case c == '*':
			sb.WriteString("ptr.")
		case c == '[' || c == ']':
			sb.WriteString("_")
		default:
			special = true
			sb.WriteByte('_')
		}
	}
	out := sb.String()
	if special || len(out) > 80 {
		h := sha1.Sum([]byte(s))
		if len(out) > 60 {
			out = out[:60]
		}
		out = fmt.Sprintf("%s_%x", out, h[:3])
	}
	return out
}

type FieldInfo struct {
	Name string
	Sel  string // selector symbol
	Sort string
	GoT  types.Type
}

type StructInfo struct {
	Sort   string
	Ctor   string
	GoT    types.Type // the (possibly named) struct type
	Fields []FieldInfo
}

type TypeReg struct {
	mu      sync.Mutex
	structs map[string]*StructInfo
	byType  map[string]string // types.TypeString -> sort (cache)
}

var treg = &TypeReg{structs: map[string]*StructInfo{}, byType: map[string]string{}}

func isTimeType(t types.Type) bool {
	if n, ok := t.(*types.Named); ok {
		o := n.Obj()
		return o.Pkg() != nil && o.Pkg().Path() == "time" && o.Name() == "Time"
	}
	return false
}

var byteRuneRe = regexp.MustCompile(`(^|[^A-Za-z0-9_.])(byte|rune)($|[^A-Za-z0-9_])`)

// typeKey: canonical type string (byte and rune are spelled uint8 and int32 so that one Go type has one key).
func typeKey(t types.Type) string {
	s := types.TypeString(t, nil)
	if !strings.Contains(s, "byte") && !strings.Contains(s, "rune") {
		return s
	}
	for i := 0; i < 4; i++ {
		n := byteRuneRe.ReplaceAllStringFunc(s, func(m string) string {
			m = strings.Replace(m, "byte", "uint8", 1)
			return strings.Replace(m, "rune", "int32", 1)
		})
		if n == s {
			break
		}
		s = n
	}
	return s
}

type unsupportedErr struct{ msg string }

func (e unsupportedErr) Error() string { return e.msg }

func unsupported(format string, a ...interface{}) {
	panic(unsupportedErr{fmt.Sprintf(format, a...)})
}

func sortOf(t types.Type) string {
	treg.mu.Lock()
	defer treg.mu.Unlock()
	return treg.sortOf(t)
}

func (r *TypeReg) sortOf(t types.Type) string {
	t = types.Unalias(t)
	if isTimeType(t) {
		return STime
	}
	switch u := t.Underlying().(type) {
	case *types.Basic:
		switch u.Kind() {
		case types.Bool, types.UntypedBool:
			return SBool
		case types.Int8, types.Uint8:
			return BV(8)
		case types.Int16, types.Uint16:
			return BV(16)
		case types.Int32, types.Uint32, types.UntypedRune:
			return BV(32)
		case types.Int, types.Uint, types.Int64, types.Uint64, types.Uintptr, types.UntypedInt:
			return BV(64)
		case types.String, types.UntypedString:
			return SStr
		case types.Float32, types.Float64, types.UntypedFloat, types.Complex64, types.Complex128:
			return "Float"
		case types.UnsafePointer:
			return SInt
		case types.UntypedNil:
			return SInt
		}
		unsupported("basic type %s", u)
	case *types.Pointer, *types.Map, *types.Chan, *types.Signature:
		return SInt
	case *types.Slice:
		return SSlice
	case *types.Interface:
		return SIface
	case *types.Array:
		return ArraySort(BV(64), r.sortOf(u.Elem()))
	case *types.Struct:
		key := typeKey(t)
		if s, ok := r.byType[key]; ok {
			return s
		}
		var name string
		if n, ok := t.(*types.Named); ok && n.TypeArgs().Len() == 0 {
			p := ""
			if n.Obj().Pkg() != nil {
				p = n.Obj().Pkg().Path() + "."
			}
			name = "T_" + mangle(p+n.Obj().Name())
		} else {
			h := sha1.Sum([]byte(key))
			name = fmt.Sprintf("T_anon_%x", h[:5])
		}
		if _, clash := r.structs[name]; clash {
			h := sha1.Sum([]byte(key))
			name = fmt.Sprintf("%s_%x", name, h[:3])
		}
		r.byType[key] = name
		si := &StructInfo{Sort: name, Ctor: "mk." + name, GoT: t}
		r.structs[name] = si // register before recursing
		for i := 0; i < u.NumFields(); i++ {
			f := u.Field(i)
			fn := f.Name()
			if fn == "_" {
				fn = fmt.Sprintf("_blank%d", i)
			}
			si.Fields = append(si.Fields, FieldInfo{Name: fn, Sel: name + "." + fn, Sort: r.sortOf(f.Type()), GoT: f.Type()})
		}
		return name
	case *types.Tuple:
		unsupported("tuple sort")
	case *types.TypeParam:
		unsupported("type parameter")
	}
	unsupported("type %s", t)
	return ""
}

func structInfo(t types.Type) *StructInfo {
	s := sortOf(t)
	treg.mu.Lock()
	defer treg.mu.Unlock()
	return treg.structs[s]
}

func structInfoBySort(s string) *StructInfo {
	treg.mu.Lock()
	defer treg.mu.Unlock()
	return treg.structs[s]
}

func isStructSort(s string) bool { return strings.HasPrefix(s, "T_") }

// field selection / update on struct terms
func FieldSel(si *StructInfo, x *Term, idx int) *Term {
	f := si.Fields[idx]
	return Sel(f.Sel, si.Ctor, idx, f.Sort, x)
}

func FieldUpd(si *StructInfo, x *Term, idx int, v *Term) *Term {
	args := make([]*Term, len(si.Fields))
	for i := range si.Fields {
		if i == idx {
			if v.Sort != si.Fields[i].Sort {
				panic(fmt.Sprintf("field update sort mismatch %s.%s: %s vs %s", si.Sort, si.Fields[i].Name, si.Fields[i].Sort, v.Sort))
			}
			args[i] = v
		} else {
			args[i] = FieldSel(si, x, i)
		}
	}
	return Mk(si.Ctor, si.Sort, args...)
}

// typeID gives a stable positive integer for a dynamic type (interface tags).
func typeID(t types.Type) int64 {
	h := sha1.Sum([]byte(typeKey(types.Unalias(t))))
	v := int64(h[0])<<24 | int64(h[1])<<16 | int64(h[2])<<8 | int64(h[3])
	return v&0x3fffffff + 1
}

func zeroOf(t types.Type) *Term {
	t = types.Unalias(t)
	if isTimeType(t) {
		return BVLitI(0, 128)
	}
	switch u := t.Underlying().(type) {
	case *types.Basic:
		s := sortOf(t)
		switch {
		case s == SBool:
			return False
		case s == SStr:
			return StrEmpty
		case s == "Float":
			return Sym("float.zero", "Float")
		case s == SInt:
			return IntLit(0)
		default:
			return BVLitI(0, bvWidth(s))
		}
	case *types.Pointer, *types.Map, *types.Chan, *types.Signature:
		return IntLit(0)
	case *types.Slice:
		return NilSlice
	case *types.Interface:
		return NilIface
	case *types.Array:
		return ConstArr(sortOf(t), zeroOf(u.Elem()))
	case *types.Struct:
		si := structInfo(t)
		args := make([]*Term, len(si.Fields))
		for i, f := range si.Fields {
			args[i] = zeroOf(f.GoT)
		}
		return Mk(si.Ctor, si.Sort, args...)
	}
	unsupported("zero of %s", t)
	return nil
}

// invName returns the name of the type-invariant predicate for a sort, or "" when trivial.
// The predicates are emitted in the preamble (see vc.go).
func hasInv(t types.Type) bool {
	t = types.Unalias(t)
	if isTimeType(t) {
		return true
	}
	switch u := t.Underlying().(type) {
	case *types.Basic:
		return u.Kind() == types.UnsafePointer || u.Info()&types.IsString != 0
	case *types.Pointer, *types.Map, *types.Chan, *types.Signature, *types.Slice, *types.Interface:
		return true
	case *types.Array:
		return false
	case *types.Struct:
		for i := 0; i < u.NumFields(); i++ {
			if hasInv(u.Field(i).Type()) {
				return true
			}
		}
	}
	return false
}

// invOf builds the type invariant of value x of Go type t relative to allocation counter ac.
func invOf(t types.Type, x *Term, ac *Term) *Term {
	t = types.Unalias(t)
	if !hasInv(t) {
		return True
	}
	if isTimeType(t) {
		// representable instants: seconds fit an int64, so nanoseconds since year 1 stay far below 2^100
		return App("time_ok", SBool, x)
	}
	switch t.Underlying().(type) {
	case *types.Basic:
		if isString(t) {
			return App("str_ok", SBool, x)
		}
		return App("ref_ok", SBool, x, ac)
	case *types.Pointer, *types.Map, *types.Chan, *types.Signature:
		return App("ref_ok", SBool, x, ac)
	case *types.Slice:
		return App("slice_ok", SBool, x, ac)
	case *types.Interface:
		return App("iface_ok", SBool, x, ac)
	case *types.Struct:
		si := structInfo(t)
		return App("inv."+si.Sort, SBool, x, ac)
	}
	return True
}

// invDefs renders define-funs for struct invariants of the given sorts (dependency order).
func invDefs(sorts []string) []string {
	var out []string
	done := map[string]bool{}
	var gen func(s string)
	gen = func(s string) {
		if done[s] {
			return
		}
		done[s] = true
		si := structInfoBySort(s)
		if si == nil || !hasInv(si.GoT) {
			return
		}
		var conj []string
		for i, f := range si.Fields {
			if !hasInv(f.GoT) {
				continue
			}
			if isStructSort(f.Sort) {
				gen(f.Sort)
			}
			x := Sym("x", si.Sort)
			conj = append(conj, invOf(f.GoT, App(si.Fields[i].Sel, f.Sort, x), Sym("ac", SInt)).String())
		}
		body := "true"
		if len(conj) == 1 {
			body = conj[0]
		} else if len(conj) > 1 {
			body = "(and " + strings.Join(conj, " ") + ")"
		}
		out = append(out, fmt.Sprintf("(define-fun inv.%s ((x %s) (ac Int)) Bool %s)", s, s, body))
	}
	ss := append([]string(nil), sorts...)
	sort.Strings(ss)
	for _, s := range ss {
		gen(s)
	}
	return out
}

// datatypeDecl renders one declare-datatypes block for the given struct sorts (closed under nesting).
func datatypeDecl(sorts map[string]bool) string {
	// close under field sorts
	var work []string
	for s := range sorts {
		work = append(work, s)
	}
	for len(work) > 0 {
		s := work[len(work)-1]
		work = work[:len(work)-1]
		si := structInfoBySort(s)
		if si == nil {
			continue
		}
		for _, f := range si.Fields {
			for _, tok := range tokenize(f.Sort) {
				if isStructSort(tok) && !sorts[tok] {
					sorts[tok] = true
					work = append(work, tok)
				}
			}
		}
	}
	var names []string
	for s := range sorts {
		if structInfoBySort(s) != nil {
			names = append(names, s)
		}
	}
	sort.Strings(names)
	if len(names) == 0 {
		return ""
	}
	var hd, bd strings.Builder
	for _, n := range names {
		si := structInfoBySort(n)
		hd.WriteString("(" + n + " 0) ")
		bd.WriteString("((" + si.Ctor)
		for _, f := range si.Fields {
			bd.WriteString(" (" + f.Sel + " " + f.Sort + ")")
		}
		bd.WriteString("))\n  ")
	}
	return "(declare-datatypes (" + hd.String() + ") (\n  " + bd.String() + "))"
}

func isSigned(t types.Type) bool {
	if b, ok := types.Unalias(t).Underlying().(*types.Basic); ok {
		return b.Info()&types.IsUnsigned == 0 && b.Info()&types.IsInteger != 0
	}
	return false
}

func isInteger(t types.Type) bool {
	if b, ok := types.Unalias(t).Underlying().(*types.Basic); ok {
		return b.Info()&types.IsInteger != 0
	}
	return false
}

func isString(t types.Type) bool {
	if b, ok := types.Unalias(t).Underlying().(*types.Basic); ok {
		return b.Info()&types.IsString != 0
	}
	return false
}

func isBool(t types.Type) bool {
	if b, ok := types.Unalias(t).Underlying().(*types.Basic); ok {
		return b.Info()&types.IsBoolean != 0
	}
	return false
}

func isFloat(t types.Type) bool {
	if b, ok := types.Unalias(t).Underlying().(*types.Basic); ok {
		return b.Info()&(types.IsFloat|types.IsComplex) != 0
	}
	return false
}

func isPointer(t types.Type) bool {
	_, ok := types.Unalias(t).Underlying().(*types.Pointer)
	return ok
}

func isInterface(t types.Type) bool {
	_, ok := types.Unalias(t).Underlying().(*types.Interface)
	return ok
}

func deref(t types.Type) types.Type {
	if p, ok := types.Unalias(t).Underlying().(*types.Pointer); ok {
		return p.Elem()
	}
	panic("deref of non-pointer " + t.String())
}

// heapName: name of the heap array holding objects of (pointee) type t.
func heapName(t types.Type) string { return "H." + mangle(typeKey(types.Unalias(t))) }

// elemHeapName: name of the heap of backing arrays with element type t.
func elemHeapName(t types.Type) string { return "A." + mangle(typeKey(types.Unalias(t))) }

func mapHeapNames(m *types.Map) (string, string) {
	k := mangle(typeKey(m.Key())) + ".." + mangle(typeKey(m.Elem()))
	return "MP." + k, "MV." + k
}

func boxHeapName(t types.Type) string { return "B." + mangle(typeKey(types.Unalias(t))) }
