package main

// SMT term layer: sorted terms with light simplification (constant folding,
// select-over-store, constructor/selector cancellation) so that trivially
// true obligations are decided without a solver call and queries stay small.

import (
	"fmt"
	"math/big"
	"strings"
)

type Term struct {
	Op   string // "lit" for literals, "sym" for declared symbols, else SMT operator / function symbol
	Args []*Term
	Sort string
	Lit  *big.Int // BV (unsigned representation) and Int literals
	B    bool     // Bool literal
	Name string   // symbol name, or literal text
	str  string
	QVars [][2]string // forall / exists: bound variables (name, sort)
	hq    int8        // memo of hasQuant: 0 unknown, 1 no, 2 yes
}

const (
	SBool  = "Bool"
	SInt   = "Int"
	SStr   = "Str"
	SSlice = "Slice"
	SIface = "Iface"
	STime  = "(_ BitVec 128)"
)

func BV(n int) string { return fmt.Sprintf("(_ BitVec %d)", n) }

func bvWidth(sort string) int {
	var n int
	if _, err := fmt.Sscanf(sort, "(_ BitVec %d)", &n); err == nil {
		return n
	}
	return 0
}

func ArraySort(idx, elem string) string { return "(Array " + idx + " " + elem + ")" }

// arrayParts splits "(Array I E)" into I and E.
func arrayParts(s string) (string, string, bool) {
	if !strings.HasPrefix(s, "(Array ") {
		return "", "", false
	}
	body := s[len("(Array ") : len(s)-1]
	// first sort ends at matching depth
	depth := 0
	for i := 0; i < len(body); i++ {
		switch body[i] {
		case '(':
			depth++
		case ')':
			depth--
		case ' ':
			if depth == 0 {
				return body[:i], body[i+1:], true
			}
		}
	}
	return "", "", false
}

var (
	True  = &Term{Op: "lit", Sort: SBool, B: true, Name: "true"}
	False = &Term{Op: "lit", Sort: SBool, B: false, Name: "false"}
)

func Bool(b bool) *Term {
	if b {
		return True
	}
	return False
}

func Sym(name, sort string) *Term { return &Term{Op: "sym", Name: name, Sort: sort} }

func IntLit(v int64) *Term {
	return &Term{Op: "lit", Sort: SInt, Lit: big.NewInt(v)}
}

func BVLit(v *big.Int, width int) *Term {
	m := new(big.Int).Lsh(big.NewInt(1), uint(width))
	x := new(big.Int).Mod(v, m)
	if x.Sign() < 0 {
		x.Add(x, m)
	}
	return &Term{Op: "lit", Sort: BV(width), Lit: x}
}

func BVLitI(v int64, width int) *Term { return BVLit(big.NewInt(v), width) }

func (t *Term) IsLit() bool   { return t.Op == "lit" }
func (t *Term) IsTrue() bool  { return t.Op == "lit" && t.Sort == SBool && t.B }
func (t *Term) IsFalse() bool { return t.Op == "lit" && t.Sort == SBool && !t.B }

// signed value of a BV literal
func (t *Term) Signed() *big.Int {
	w := bvWidth(t.Sort)
	if w == 0 {
		return t.Lit
	}
	half := new(big.Int).Lsh(big.NewInt(1), uint(w-1))
	if t.Lit.Cmp(half) >= 0 {
		return new(big.Int).Sub(t.Lit, new(big.Int).Lsh(big.NewInt(1), uint(w)))
	}
	return t.Lit
}

func (t *Term) String() string {
	if t.str != "" {
		return t.str
	}
	var s string
	switch t.Op {
	case "lit":
		switch {
		case t.Sort == SBool:
			s = t.Name
		case t.Sort == SInt:
			if t.Lit.Sign() < 0 {
				s = "(- " + new(big.Int).Neg(t.Lit).String() + ")"
			} else {
				s = t.Lit.String()
			}
		default:
			w := bvWidth(t.Sort)
			if w%4 == 0 {
				s = fmt.Sprintf("#x%0*x", w/4, t.Lit)
			} else {
				s = fmt.Sprintf("#b%0*b", w, t.Lit)
			}
		}
	case "sym":
		s = t.Name
	default:
		if len(t.Args) == 0 {
			t.str = t.Op
			return t.Op
		}
		var sb strings.Builder
		sb.WriteByte('(')
		sb.WriteString(t.Op)
		for _, a := range t.Args {
			sb.WriteByte(' ')
			sb.WriteString(a.String())
		}
		sb.WriteByte(')')
		s = sb.String()
	}
	t.str = s
	return s
}

func App(op, sort string, args ...*Term) *Term {
	return &Term{Op: op, Sort: sort, Args: args}
}

func same(a, b *Term) bool {
	if a == b {
		return true
	}
	return a.Sort == b.Sort && a.String() == b.String()
}

// ---------- boolean connectives ----------

func Not(a *Term) *Term {
	if a.IsLit() {
		return Bool(!a.B)
	}
	if a.Op == "not" {
		return a.Args[0]
	}
	// negation normal form above quantifiers, so that assumed / goal quantifiers are visible to the
	// skolemisation and instantiation passes
	if hasQuant(a) {
		switch a.Op {
		case "forall":
			return Exists(a.QVars, Not(a.Args[0]))
		case "exists":
			return Forall(a.QVars, Not(a.Args[0]))
		case "and":
			var xs []*Term
			for _, x := range a.Args {
				xs = append(xs, Not(x))
			}
			return Or(xs...)
		case "or":
			var xs []*Term
			for _, x := range a.Args {
				xs = append(xs, Not(x))
			}
			return And(xs...)
		case "=>":
			if len(a.Args) == 2 {
				return And(a.Args[0], Not(a.Args[1]))
			}
		}
	}
	return App("not", SBool, a)
}

func And(xs ...*Term) *Term {
	var out []*Term
	for _, x := range xs {
		if x == nil || x.IsTrue() {
			continue
		}
		if x.IsFalse() {
			return False
		}
		if x.Op == "and" {
			out = append(out, x.Args...)
			continue
		}
		dup := false
		for _, o := range out {
			if o == x {
				dup = true
				break
			}
		}
		if !dup {
			out = append(out, x)
		}
	}
	switch len(out) {
	case 0:
		return True
	case 1:
		return out[0]
	}
	return App("and", SBool, out...)
}

func Or(xs ...*Term) *Term {
	var out []*Term
	for _, x := range xs {
		if x == nil || x.IsFalse() {
			continue
		}
		if x.IsTrue() {
			return True
		}
		if x.Op == "or" {
			out = append(out, x.Args...)
			continue
		}
		dup := false
		for _, o := range out {
			if o == x {
				dup = true
				break
			}
		}
		if !dup {
			out = append(out, x)
		}
	}
	switch len(out) {
	case 0:
		return False
	case 1:
		return out[0]
	}
	return App("or", SBool, out...)
}

func Implies(a, b *Term) *Term {
	if a.IsTrue() {
		return b
	}
	if a.IsFalse() || b.IsTrue() {
		return True
	}
	if b.IsFalse() {
		return Not(a)
	}
	return App("=>", SBool, a, b)
}

func Iff(a, b *Term) *Term { return Eq(a, b) }

func Ite(c, a, b *Term) *Term {
	if c.IsTrue() {
		return a
	}
	if c.IsFalse() {
		return b
	}
	if same(a, b) {
		return a
	}
	if a.Sort == SBool {
		if a.IsTrue() && b.IsFalse() {
			return c
		}
		if a.IsFalse() && b.IsTrue() {
			return Not(c)
		}
	}
	if a.Sort != b.Sort {
		panic(fmt.Sprintf("ite sort mismatch: %s vs %s (%s | %s)", a.Sort, b.Sort, a, b))
	}
	return App("ite", a.Sort, c, a, b)
}

func Eq(a, b *Term) *Term {
	if a.Sort != b.Sort {
		panic(fmt.Sprintf("eq sort mismatch: %s : %s  vs  %s : %s", a, a.Sort, b, b.Sort))
	}
	if a.IsLit() && b.IsLit() {
		if a.Sort == SBool {
			return Bool(a.B == b.B)
		}
		return Bool(a.Lit.Cmp(b.Lit) == 0)
	}
	if same(a, b) {
		return True
	}
	if a.Sort == SBool {
		if b.IsTrue() {
			return a
		}
		if b.IsFalse() {
			return Not(a)
		}
		if a.IsTrue() {
			return b
		}
		if a.IsFalse() {
			return Not(b)
		}
	}
	return App("=", SBool, a, b)
}

func Neq(a, b *Term) *Term { return Not(Eq(a, b)) }

// ---------- bit-vector arithmetic ----------

func mask(w int) *big.Int {
	return new(big.Int).Sub(new(big.Int).Lsh(big.NewInt(1), uint(w)), big.NewInt(1))
}

func bvBin(op string, a, b *Term) *Term {
	if a.Sort != b.Sort {
		panic(fmt.Sprintf("%s sort mismatch: %s:%s vs %s:%s", op, a, a.Sort, b, b.Sort))
	}
	w := bvWidth(a.Sort)
	if a.IsLit() && b.IsLit() {
		x, y := a.Lit, b.Lit
		r := new(big.Int)
		ok := true
		switch op {
		case "bvadd":
			r.Add(x, y)
		case "bvsub":
			r.Sub(x, y)
		case "bvmul":
			r.Mul(x, y)
		case "bvand":
			r.And(x, y)
		case "bvor":
			r.Or(x, y)
		case "bvxor":
			r.Xor(x, y)
		case "bvshl":
			if y.Cmp(big.NewInt(int64(w))) >= 0 {
				r.SetInt64(0)
			} else {
				r.Lsh(x, uint(y.Int64()))
			}
		case "bvlshr":
			if y.Cmp(big.NewInt(int64(w))) >= 0 {
				r.SetInt64(0)
			} else {
				r.Rsh(x, uint(y.Int64()))
			}
		case "bvudiv":
			if y.Sign() == 0 {
				ok = false
			} else {
				r.Div(x, y)
			}
		case "bvurem":
			if y.Sign() == 0 {
				ok = false
			} else {
				r.Mod(x, y)
			}
		case "bvsdiv":
			if y.Sign() == 0 {
				ok = false
			} else {
				r.Quo(a.Signed(), b.Signed())
			}
		case "bvsrem":
			if y.Sign() == 0 {
				ok = false
			} else {
				r.Rem(a.Signed(), b.Signed())
			}
		default:
			ok = false
		}
		if ok {
			return BVLit(r, w)
		}
	}
	// identities
	switch op {
	case "bvadd":
		if a.IsLit() && a.Lit.Sign() == 0 {
			return b
		}
		if b.IsLit() && b.Lit.Sign() == 0 {
			return a
		}
		// (x + c1) + c2
		if b.IsLit() && a.Op == "bvadd" && len(a.Args) == 2 && a.Args[1].IsLit() {
			return bvBin("bvadd", a.Args[0], bvBin("bvadd", a.Args[1], b))
		}
	case "bvsub":
		if b.IsLit() && b.Lit.Sign() == 0 {
			return a
		}
		if same(a, b) {
			return BVLitI(0, w)
		}
		// (x + c) - x  => c ; (x + y) - y => x
		if a.Op == "bvadd" && len(a.Args) == 2 {
			if same(a.Args[0], b) {
				return a.Args[1]
			}
			if same(a.Args[1], b) {
				return a.Args[0]
			}
		}
	case "bvmul":
		if a.IsLit() && a.Lit.Cmp(big.NewInt(1)) == 0 {
			return b
		}
		if b.IsLit() && b.Lit.Cmp(big.NewInt(1)) == 0 {
			return a
		}
	case "bvor", "bvxor":
		if a.IsLit() && a.Lit.Sign() == 0 {
			return b
		}
		if b.IsLit() && b.Lit.Sign() == 0 {
			return a
		}
	case "bvshl", "bvlshr", "bvashr":
		if b.IsLit() && b.Lit.Sign() == 0 {
			return a
		}
	}
	return App(op, a.Sort, a, b)
}

func BVAdd(a, b *Term) *Term { return bvBin("bvadd", a, b) }
func BVSub(a, b *Term) *Term { return bvBin("bvsub", a, b) }
func BVMul(a, b *Term) *Term { return bvBin("bvmul", a, b) }

func BVNeg(a *Term) *Term {
	if a.IsLit() {
		return BVLit(new(big.Int).Neg(a.Lit), bvWidth(a.Sort))
	}
	return App("bvneg", a.Sort, a)
}

func BVNot(a *Term) *Term {
	if a.IsLit() {
		return BVLit(new(big.Int).Xor(a.Lit, mask(bvWidth(a.Sort))), bvWidth(a.Sort))
	}
	return App("bvnot", a.Sort, a)
}

func bvCmp(op string, a, b *Term) *Term {
	if a.Sort != b.Sort {
		panic(fmt.Sprintf("%s sort mismatch: %s:%s vs %s:%s", op, a, a.Sort, b, b.Sort))
	}
	if a.IsLit() && b.IsLit() {
		var c int
		if strings.HasPrefix(op, "bvs") {
			c = a.Signed().Cmp(b.Signed())
		} else {
			c = a.Lit.Cmp(b.Lit)
		}
		switch op[3:] {
		case "lt":
			return Bool(c < 0)
		case "le":
			return Bool(c <= 0)
		case "gt":
			return Bool(c > 0)
		case "ge":
			return Bool(c >= 0)
		}
	}
	if same(a, b) {
		switch op[3:] {
		case "lt", "gt":
			return False
		default:
			return True
		}
	}
	return App(op, SBool, a, b)
}

func SLt(a, b *Term) *Term { return bvCmp("bvslt", a, b) }
func SLe(a, b *Term) *Term { return bvCmp("bvsle", a, b) }
func SGt(a, b *Term) *Term { return bvCmp("bvsgt", a, b) }
func SGe(a, b *Term) *Term { return bvCmp("bvsge", a, b) }
func ULt(a, b *Term) *Term { return bvCmp("bvult", a, b) }
func ULe(a, b *Term) *Term { return bvCmp("bvule", a, b) }
func UGt(a, b *Term) *Term { return bvCmp("bvugt", a, b) }
func UGe(a, b *Term) *Term { return bvCmp("bvuge", a, b) }

// Resize converts a BV term to width w (truncate / extend by signedness of the source).
func Resize(a *Term, w int, srcSigned bool) *Term {
	sw := bvWidth(a.Sort)
	if sw == w {
		return a
	}
	if a.IsLit() {
		if srcSigned {
			return BVLit(a.Signed(), w)
		}
		return BVLit(a.Lit, w)
	}
	if w < sw {
		return App(fmt.Sprintf("(_ extract %d 0)", w-1), BV(w), a)
	}
	if srcSigned {
		return App(fmt.Sprintf("(_ sign_extend %d)", w-sw), BV(w), a)
	}
	return App(fmt.Sprintf("(_ zero_extend %d)", w-sw), BV(w), a)
}

func Extract(a *Term, hi, lo int) *Term {
	if a.IsLit() {
		v := new(big.Int).Rsh(a.Lit, uint(lo))
		return BVLit(v, hi-lo+1)
	}
	return App(fmt.Sprintf("(_ extract %d %d)", hi, lo), BV(hi-lo+1), a)
}

func Concat(a, b *Term) *Term {
	wa, wb := bvWidth(a.Sort), bvWidth(b.Sort)
	if a.IsLit() && b.IsLit() {
		v := new(big.Int).Lsh(a.Lit, uint(wb))
		v.Or(v, b.Lit)
		return BVLit(v, wa+wb)
	}
	return App("concat", BV(wa+wb), a, b)
}

// ---------- Int (refs, type tags) ----------

func IntAdd(a, b *Term) *Term {
	if a.IsLit() && b.IsLit() {
		return &Term{Op: "lit", Sort: SInt, Lit: new(big.Int).Add(a.Lit, b.Lit)}
	}
	if b.IsLit() && b.Lit.Sign() == 0 {
		return a
	}
	return App("+", SInt, a, b)
}
func IntLt(a, b *Term) *Term {
	if a.IsLit() && b.IsLit() {
		return Bool(a.Lit.Cmp(b.Lit) < 0)
	}
	return App("<", SBool, a, b)
}
func IntLe(a, b *Term) *Term {
	if a.IsLit() && b.IsLit() {
		return Bool(a.Lit.Cmp(b.Lit) <= 0)
	}
	return App("<=", SBool, a, b)
}

// ---------- arrays ----------

func Select(a, i *Term) *Term {
	_, es, ok := arrayParts(a.Sort)
	if !ok {
		panic("select on non-array " + a.Sort + " " + a.String())
	}
	// select over store chain with syntactically decidable indices
	cur := a
	for cur.Op == "store" {
		j := cur.Args[1]
		if same(i, j) {
			return cur.Args[2]
		}
		if i.IsLit() && j.IsLit() {
			cur = cur.Args[0]
			continue
		}
		break
	}
	if cur.Op == "constarr" {
		return cur.Args[0]
	}
	if cur.Op == "ite" && len(cur.Args) == 3 {
		return Ite(cur.Args[0], Select(cur.Args[1], i), Select(cur.Args[2], i))
	}
	return App("select", es, cur, i)
}

func Store(a, i, v *Term) *Term {
	_, es, ok := arrayParts(a.Sort)
	if !ok {
		panic("store on non-array " + a.Sort)
	}
	if es != v.Sort {
		panic(fmt.Sprintf("store elem sort mismatch: array %s value %s : %s", a.Sort, v, v.Sort))
	}
	if a.Op == "store" && same(a.Args[1], i) {
		return App("store", a.Sort, a.Args[0], i, v)
	}
	return App("store", a.Sort, a, i, v)
}

// ConstArr is ((as const S) v); printed specially.
func ConstArr(sort string, v *Term) *Term {
	t := &Term{Op: "constarr", Sort: sort, Args: []*Term{v}}
	t.str = "((as const " + sort + ") " + v.String() + ")"
	return t
}

// ---------- datatype helpers (constructor / selector with cancellation) ----------

// Mk builds a constructor application; ctor name is "mk-"+sort-ish, given explicitly.
func Mk(ctor, sort string, args ...*Term) *Term {
	return &Term{Op: ctor, Sort: sort, Args: args, Name: "ctor"}
}

// Sel applies selector number idx (named selName) of a datatype whose constructor is ctor.
func Sel(selName, ctor string, idx int, resSort string, x *Term) *Term {
	if x.Op == ctor && x.Name == "ctor" {
		return x.Args[idx]
	}
	if x.Op == "ite" {
		// push selectors through ite when both branches are constructors (keeps merged structs small)
		a, b := x.Args[1], x.Args[2]
		if (a.Op == ctor && a.Name == "ctor") || (b.Op == ctor && b.Name == "ctor") {
			return Ite(x.Args[0], Sel(selName, ctor, idx, resSort, a), Sel(selName, ctor, idx, resSort, b))
		}
	}
	return App(selName, resSort, x)
}

// slices
func MkSlice(ref, off, ln, cp *Term) *Term { return Mk("mk-slice", SSlice, ref, off, ln, cp) }
func SlRef(s *Term) *Term                   { return Sel("s.ref", "mk-slice", 0, SInt, s) }
func SlOff(s *Term) *Term                   { return Sel("s.off", "mk-slice", 1, BV(64), s) }
func SlLen(s *Term) *Term                   { return Sel("s.len", "mk-slice", 2, BV(64), s) }
func SlCap(s *Term) *Term                   { return Sel("s.cap", "mk-slice", 3, BV(64), s) }

var NilSlice = MkSlice(IntLit(0), BVLitI(0, 64), BVLitI(0, 64), BVLitI(0, 64))

// interfaces
func MkIface(tag, ref *Term) *Term { return Mk("mk-iface", SIface, tag, ref) }
func IfTag(i *Term) *Term           { return Sel("i.tag", "mk-iface", 0, SInt, i) }
func IfRef(i *Term) *Term           { return Sel("i.ref", "mk-iface", 1, SInt, i) }

var NilIface = MkIface(IntLit(0), IntLit(0))

// strings
func StrLen(s *Term) *Term { return App("strlen", BV(64), s) }
func StrArr(s *Term) *Term { return App("strarr", ArraySort(BV(64), BV(8)), s) }

// quantifier over BV64 / Int variables with optional patterns
func Forall(vars [][2]string, body *Term, patterns ...*Term) *Term {
	if body.IsTrue() {
		return True
	}
	var sb strings.Builder
	sb.WriteString("(forall (")
	for _, v := range vars {
		sb.WriteString("(" + v[0] + " " + v[1] + ") ")
	}
	sb.WriteString(") ")
	if len(patterns) > 0 {
		sb.WriteString("(! " + body.String())
		for _, p := range patterns {
			sb.WriteString(" :pattern (" + p.String() + ")")
		}
		sb.WriteString(")")
	} else {
		sb.WriteString(body.String())
	}
	sb.WriteString(")")
	t := &Term{Op: "forall", Sort: SBool, Args: []*Term{body}, QVars: vars}
	t.str = sb.String()
	return t
}

func Exists(vars [][2]string, body *Term) *Term {
	if body.IsFalse() {
		return False
	}
	var sb strings.Builder
	sb.WriteString("(exists (")
	for _, v := range vars {
		sb.WriteString("(" + v[0] + " " + v[1] + ") ")
	}
	sb.WriteString(") " + body.String() + ")")
	t := &Term{Op: "exists", Sort: SBool, Args: []*Term{body}, QVars: vars}
	t.str = sb.String()
	return t
}

// symbols collects the free symbol names of a term (including symbols hidden inside
// pre-rendered quantifier strings, found by tokenising).
func (t *Term) symbols(out map[string]bool) {
	switch t.Op {
	case "sym":
		out[t.Name] = true
	case "lit":
	case "forall", "exists", "constarr", "opaque":
		for _, tok := range tokenize(t.String()) {
			out[tok] = true
		}
	default:
		out[t.Op] = true
		for _, a := range t.Args {
			a.symbols(out)
		}
	}
}

func tokenize(s string) []string {
	var toks []string
	cur := strings.Builder{}
	flush := func() {
		if cur.Len() > 0 {
			toks = append(toks, cur.String())
			cur.Reset()
		}
	}
	inBar := false
	for i := 0; i < len(s); i++ {
		c := s[i]
		if inBar {
			cur.WriteByte(c)
			if c == '|' {
				inBar = false
				flush()
			}
			continue
		}
		switch c {
		case ';':
			// comment to end of line
			flush()
			for i < len(s) && s[i] != '\n' {
				i++
			}
		case '|':
			flush()
			inBar = true
			cur.WriteByte(c)
		case '(', ')', ' ', '\n', '\t':
			flush()
		default:
			cur.WriteByte(c)
		}
	}
	flush()
	return toks
}

var StrEmpty = Sym("strempty", SStr)
