package main

// Direct replay of a refuted obligation on the real code: the model is re-solved with all
// sequence lengths bounded (so that it can be materialised), turned into Go values, and the real
// function is called from a generated in-package test injected with `go test -overlay`.

import (
	"crypto/sha1"
	"context"
	"encoding/json"
	"fmt"
	"go/types"
	"math/big"
	"os"
	"os/exec"
	"path/filepath"
	"strings"
	"time"
)

const (
	replayBytes = 40
	replayElems = 3
)

type probeCtx struct {
	o       *Obligation
	heap0   map[string]*Term
	queries []*Term
	bounds  []*Term
	imports map[string]string // path -> name
	pkg     *types.Package
	partial bool
	depth   int
}

func (pc *probeCtx) q(t *Term) *Term { pc.queries = append(pc.queries, t); return t }

func (pc *probeCtx) heap(name, sort string) *Term {
	if t, ok := pc.heap0[name]; ok {
		return t
	}
	return nil
}

// collect walks a value of Go type t and registers the terms whose model values are needed.
func (pc *probeCtx) collect(v *Term, t types.Type, depth int) {
	t = types.Unalias(t)
	if depth > 4 {
		return
	}
	if isTimeType(t) {
		pc.q(v)
		return
	}
	switch u := t.Underlying().(type) {
	case *types.Basic:
		if isString(t) {
			pc.q(StrLen(v))
			pc.bounds = append(pc.bounds, SLe(StrLen(v), BVLitI(replayBytes, 64)))
			for i := 0; i < replayBytes; i++ {
				pc.q(Select(StrArr(v), BVLitI(int64(i), 64)))
			}
			return
		}
		pc.q(v)
	case *types.Slice:
		pc.q(SlLen(v))
		pc.q(SlRef(v))
		n := replayElems
		if isByteSlice(t) {
			n = replayBytes
		}
		pc.bounds = append(pc.bounds, SLe(SlLen(v), BVLitI(int64(n), 64)))
		name, sort := elemHeap(u.Elem())
		h := pc.heap(name, sort)
		if h == nil {
			return
		}
		for i := 0; i < n; i++ {
			el := Select(Select(h, SlRef(v)), BVAdd(SlOff(v), BVLitI(int64(i), 64)))
			pc.collect(el, u.Elem(), depth+1)
		}
	case *types.Struct:
		si := structInfo(t)
		for i, f := range si.Fields {
			pc.collect(FieldSel(si, v, i), f.GoT, depth+1)
		}
	case *types.Pointer:
		pc.q(v)
		if _, ok := types.Unalias(u.Elem()).Underlying().(*types.Struct); ok {
			name, sort := objHeap(u.Elem())
			if h := pc.heap(name, sort); h != nil {
				pc.collect(Select(h, v), u.Elem(), depth+1)
			}
		}
	case *types.Array:
		if u.Len() <= 32 {
			for i := int64(0); i < u.Len(); i++ {
				pc.collect(Select(v, BVLitI(i, 64)), u.Elem(), depth+1)
			}
		}
	default:
		pc.partial = true
	}
}

func parseBV(s string) (*big.Int, bool) {
	s = strings.TrimSpace(s)
	if strings.HasPrefix(s, "#x") {
		v, ok := new(big.Int).SetString(s[2:], 16)
		return v, ok
	}
	if strings.HasPrefix(s, "#b") {
		v, ok := new(big.Int).SetString(s[2:], 2)
		return v, ok
	}
	if strings.HasPrefix(s, "(- ") {
		v, ok := new(big.Int).SetString(strings.TrimSuffix(s[3:], ")"), 10)
		if ok {
			v.Neg(v)
		}
		return v, ok
	}
	v, ok := new(big.Int).SetString(s, 10)
	return v, ok
}

func (pc *probeCtx) typeStr(t types.Type) string {
	return types.TypeString(t, func(p *types.Package) string {
		if p == pc.pkg {
			return ""
		}
		pc.imports[p.Path()] = p.Name()
		return p.Name()
	})
}

// expr renders the Go expression for value v of type t using model m.
func (pc *probeCtx) expr(v *Term, t types.Type, m map[string]string, depth int) string {
	t = types.Unalias(t)
	get := func(x *Term) (*big.Int, bool) {
		s, ok := m[x.String()]
		if !ok {
			return nil, false
		}
		return parseBV(s)
	}
	zero := "*new(" + pc.typeStr(t) + ")"
	if depth > 4 {
		return zero
	}
	if isTimeType(t) {
		if n, ok := get(v); ok {
			// instant in ns since year 1 -> time.Unix
			pc.imports["time"] = "time"
			sec := new(big.Int).Quo(n, big.NewInt(1000000000))
			ns := new(big.Int).Rem(n, big.NewInt(1000000000))
			sec.Sub(sec, big.NewInt(unixEpochSec))
			if sec.IsInt64() {
				return fmt.Sprintf("time.Unix(%d, %d).UTC()", sec.Int64(), ns.Int64())
			}
		}
		return zero
	}
	switch u := t.Underlying().(type) {
	case *types.Basic:
		switch {
		case isString(t):
			n, ok := get(StrLen(v))
			if !ok || !n.IsInt64() || n.Int64() > replayBytes {
				return zero
			}
			bs := make([]byte, n.Int64())
			for i := range bs {
				if b, ok := get(Select(StrArr(v), BVLitI(int64(i), 64))); ok {
					bs[i] = byte(b.Int64())
				} else {
					bs[i] = 'a'
				}
			}
			return fmt.Sprintf("%s(%q)", pc.typeStr(t), string(bs))
		case isBool(t):
			if s, ok := m[v.String()]; ok && strings.TrimSpace(s) == "true" {
				return "true"
			}
			return "false"
		case isInteger(t):
			n, ok := get(v)
			if !ok {
				return zero
			}
			w := bvWidth(sortOf(t))
			if isSigned(t) {
				n = (&Term{Op: "lit", Sort: BV(w), Lit: n}).Signed()
			}
			return fmt.Sprintf("%s(%s)", pc.typeStr(t), n.String())
		}
		return zero
	case *types.Slice:
		n, ok := get(SlLen(v))
		ref, ok2 := get(SlRef(v))
		if !ok || !ok2 || !n.IsInt64() {
			return zero
		}
		if ref.Sign() == 0 {
			return pc.typeStr(t) + "(nil)"
		}
		maxN := int64(replayElems)
		if isByteSlice(t) {
			maxN = replayBytes
		}
		if n.Int64() > maxN || n.Int64() < 0 {
			pc.partial = true
			return zero
		}
		name, sort := elemHeap(u.Elem())
		h := pc.heap(name, sort)
		var els []string
		for i := int64(0); i < n.Int64(); i++ {
			if h == nil {
				els = append(els, "*new("+pc.typeStr(u.Elem())+")")
				continue
			}
			el := Select(Select(h, SlRef(v)), BVAdd(SlOff(v), BVLitI(i, 64)))
			els = append(els, pc.expr(el, u.Elem(), m, depth+1))
		}
		return pc.typeStr(t) + "{" + strings.Join(els, ", ") + "}"
	case *types.Struct:
		si := structInfo(t)
		var fs []string
		for i, f := range si.Fields {
			if strings.HasPrefix(f.Name, "_blank") {
				continue
			}
			fs = append(fs, f.Name+": "+pc.expr(FieldSel(si, v, i), f.GoT, m, depth+1))
		}
		// fields of foreign packages may be unexported: only same-package or exported fields can be set
		var keep []string
		st := u
		for i := 0; i < st.NumFields(); i++ {
			f := st.Field(i)
			if f.Name() == "_" {
				continue
			}
			if f.Exported() || f.Pkg() == pc.pkg {
				for _, s := range fs {
					if strings.HasPrefix(s, f.Name()+": ") {
						keep = append(keep, s)
					}
				}
			} else {
				pc.partial = true
			}
		}
		return pc.typeStr(t) + "{" + strings.Join(keep, ", ") + "}"
	case *types.Pointer:
		r, ok := get(v)
		if !ok || r.Sign() == 0 {
			if ok {
				return "(" + pc.typeStr(t) + ")(nil)"
			}
			return zero
		}
		if _, isS := types.Unalias(u.Elem()).Underlying().(*types.Struct); isS {
			name, sort := objHeap(u.Elem())
			if h := pc.heap(name, sort); h != nil {
				inner := pc.expr(Select(h, v), u.Elem(), m, depth+1)
				return "func() " + pc.typeStr(t) + " { x := " + inner + "; return &x }()"
			}
		}
		return "new(" + pc.typeStr(u.Elem()) + ")"
	case *types.Array:
		if u.Len() <= 32 {
			var els []string
			for i := int64(0); i < u.Len(); i++ {
				els = append(els, pc.expr(Select(v, BVLitI(i, 64)), u.Elem(), m, depth+1))
			}
			return pc.typeStr(t) + "{" + strings.Join(els, ", ") + "}"
		}
	}
	pc.partial = true
	return zero
}

// directReplay returns the test output and whether the real code panicked on the model's input.
func (cc *checkCtx) directReplay(o *Obligation) (string, bool) {
	switch o.Kind {
	case "bounds", "slice", "nil", "nilmap", "div0", "makesize", "typeassert", "negshift", "panic":
	default:
		return "no executable oracle for obligations of kind " + o.Kind + " (model only)", false
	}
	fn := cc.P.Funcs[o.Fn]
	if fn == nil || fn.Pkg == nil || fn.Parent() != nil || o.vc == nil || o.vc.rootExec == nil {
		return "function cannot be called directly (closure or synthetic)", false
	}
	e := o.vc.rootExec
	pc := &probeCtx{o: o, heap0: e.root.heap0, imports: map[string]string{}, pkg: fn.Pkg.Pkg}
	var failure string
	func() {
		defer func() {
			if r := recover(); r != nil {
				failure = fmt.Sprint(r)
			}
		}()
		for i, p := range fn.Params {
			pc.collect(e.toTermQuiet(e.params[i], p.Type()), p.Type(), 0)
		}
	}()
	if failure != "" {
		return "cannot materialise parameters: " + failure, false
	}
	// second solve: lengths bounded, all probe terms read back
	o2 := *o
	o2.Inputs = pc.queries
	o2.Extra = And(pc.bounds...)
	text := o2.SMT(true)
	hs := sha1.Sum([]byte(o.Name))
	file := filepath.Join(ensureWorkDir(), fmt.Sprintf("replay_%s.%x.smt2", fileSafe.ReplaceAllString(trunc(o.Name, 100), "_"), hs[:4]))
	os.WriteFile(file, []byte(text), 0644)
	r := runSolver(context.Background(), solvers[1], file, 20)
	if r.verdict != "sat" {
		r = runSolver(context.Background(), solvers[0], file, 20)
	}
	if r.verdict != "sat" {
		return "no model with all sequence lengths <= " + fmt.Sprint(replayBytes) + " (" + r.verdict + "): input cannot be materialised", false
	}
	m := parseModel(r.out)
	var args []string
	for i, p := range fn.Params {
		args = append(args, pc.expr(e.toTermQuiet(e.params[i], p.Type()), p.Type(), m, 0))
	}
	// call expression
	var call string
	if fn.Signature.Recv() != nil {
		call = "(" + args[0] + ")." + fn.Name() + "(" + strings.Join(args[1:], ", ") + ")"
	} else {
		call = fn.Name() + "(" + strings.Join(args, ", ") + ")"
	}
	pc.imports["testing"] = "testing"
	pc.imports["fmt"] = "fmt"
	var imp strings.Builder
	for path, name := range pc.imports {
		imp.WriteString(fmt.Sprintf("\t%s %q\n", name, path))
	}
	src := fmt.Sprintf(`package %s

import (
%s)

func TestGowpReplay(t *testing.T) {
	defer func() {
		if r := recover(); r != nil {
			fmt.Println("GOWP-REPLAY-PANIC:", r)
			return
		}
		fmt.Println("GOWP-REPLAY-RETURNED")
	}()
	%s
}
`, fn.Pkg.Pkg.Name(), imp.String(), call)
	dir := filepath.Dir(cc.P.Fset.Position(fn.Pos()).Filename)
	tmp := filepath.Join(ensureWorkDir(), fmt.Sprintf("replay_test_src_%x.go", hs[:4]))
	os.WriteFile(tmp, []byte(src), 0644)
	ov := map[string]map[string]string{"Replace": {filepath.Join(dir, "zz_gowp_replay_test.go"): tmp}}
	ovb, _ := json.Marshal(ov)
	ovf := filepath.Join(ensureWorkDir(), fmt.Sprintf("overlay_%x.json", hs[:4]))
	os.WriteFile(ovf, ovb, 0644)
	ctx, cancel := context.WithTimeout(context.Background(), 120*time.Second)
	defer cancel()
	cmd := exec.CommandContext(ctx, "bash", "-c", "ulimit -v 8000000; cd "+dir+" && go test -v -overlay "+ovf+" -vet=off -count=1 -timeout 60s -run '^TestGowpReplay$' . 2>&1 | tail -40")
	cmd.Env = append(os.Environ(), "GOFLAGS=-mod=mod", "GOPROXY=off", "GOSUMDB=off", "GOTOOLCHAIN=local")
	out, _ := cmd.CombinedOutput()
	res := "call: " + call + "\n" + string(out)
	if pc.partial {
		res = "(some parameters could not be set from the model and were left zero)\n" + res
	}
	return res, strings.Contains(string(out), "GOWP-REPLAY-PANIC")
}

func (e *Exec) toTermQuiet(v Val, t types.Type) *Term {
	switch x := v.(type) {
	case *Term:
		return x
	case *Ptr:
		if x.Ref != nil {
			return x.Ref
		}
	}
	panic("parameter has no term")
}
