package main

// Verification-condition context: ordered declarations and assumptions, named obligations,
// SMT-LIB emission and the solver portfolio.

import (
	"encoding/hex"
	"crypto/sha1"
	"runtime/debug"
	"bytes"
	"context"
	"fmt"
	"os"
	"os/exec"
	"path/filepath"
	"regexp"
	"sort"
	"strings"
	"sync"
	"time"
)

const maxLenLit = "#x0001000000000000" // 2^48: linux/amd64 maxAlloc, the only arithmetic assumption

type Item struct {
	Name   string // declared symbol (when a declaration)
	Sort   string
	Assert *Term // assumption (when not a declaration)
	Raw    string // raw SMT text (rare)
	Def    string // non-empty: this assertion defines the symbol Def (directed for slicing)
	syms   map[string]bool
}

func (it *Item) symbols() map[string]bool {
	if it.syms == nil {
		it.syms = map[string]bool{}
		if it.Assert != nil {
			it.Assert.symbols(it.syms)
		}
	}
	return it.syms
}

// slice computes the cone of influence of the goal: definitions are followed from the defined symbol to
// its definition only; other assumptions are kept when they mention a relevant symbol. Dropping
// assumptions is sound (it can only turn a provable obligation into an undischarged one).
var symMu sync.Mutex

func sliceItems(items []Item, seeds map[string]bool) []bool {
	symMu.Lock()
	for i := range items {
		items[i].symbols()
	}
	symMu.Unlock()
	keep := make([]bool, len(items))
	rel := map[string]bool{}
	for s := range seeds {
		rel[s] = true
	}
	defOf := map[string][]int{}
	var general []int
	for i := range items {
		it := &items[i]
		if it.Assert == nil {
			continue
		}
		if it.Def != "" {
			defOf[it.Def] = append(defOf[it.Def], i)
		} else {
			general = append(general, i)
		}
	}
	work := make([]string, 0, len(rel))
	for s := range rel {
		work = append(work, s)
	}
	addSyms := func(m map[string]bool) {
		for s := range m {
			if !rel[s] {
				rel[s] = true
				work = append(work, s)
			}
		}
	}
	for {
		for len(work) > 0 {
			s := work[len(work)-1]
			work = work[:len(work)-1]
			for _, i := range defOf[s] {
				if !keep[i] {
					keep[i] = true
					addSyms(items[i].symbols())
				}
			}
		}
		changed := false
		for _, i := range general {
			if keep[i] {
				continue
			}
			for sym := range items[i].symbols() {
				if rel[sym] && !builtinSym(sym) {
					keep[i] = true
					addSyms(items[i].symbols())
					changed = true
					break
				}
			}
		}
		if !changed && len(work) == 0 {
			break
		}
	}
	for i := range items {
		it := &items[i]
		if it.Assert == nil {
			if it.Raw != "" {
				keep[i] = true
			} else {
				keep[i] = rel[it.Name]
			}
		}
	}
	return keep
}

func builtinSym(s string) bool {
	switch s {
	case "and", "or", "not", "=>", "=", "ite", "select", "store", "true", "false", "bvadd", "bvsub", "bvmul", "bvslt", "bvsle", "bvsgt", "bvsge",
		"bvult", "bvule", "bvugt", "bvuge", "+", "-", "<", "<=", "s.ref", "s.off", "s.len", "s.cap", "mk-slice", "mk-iface", "i.tag", "i.ref",
		"strlen", "strarr", "strempty", "concat", "bvand", "bvor", "bvxor", "bvnot", "bvneg", "bvshl", "bvlshr", "bvashr", "bvudiv", "bvurem", "bvsdiv", "bvsrem",
		"slice_ok", "iface_ok", "ref_ok", "str_ok", "forall", "exists", "Int", "Bool", "Array", "_", "BitVec", "!", ":pattern", "as", "const", "Str", "Slice", "Iface", "extract", "zero_extend", "sign_extend":
		return true
	}
	if strings.HasPrefix(s, "#x") || strings.HasPrefix(s, "#b") || strings.HasPrefix(s, "T_") || strings.HasPrefix(s, "mk.T_") || strings.HasPrefix(s, "inv.T_") {
		return true
	}
	if len(s) > 0 && (s[0] >= '0' && s[0] <= '9') {
		return true
	}
	return false
}

type Obligation struct {
	instLevel int // 0: goal-directed instances only; 1: also witness constants / index terms for assumptions
	Fn      string // function (verification unit)
	Name    string // stable obligation name
	Kind    string
	Desc    string // human readable: source text / position
	Pos     string
	Guard   *Term
	Goal    *Term
	itemPos int
	vc      *VC
	// result
	Status  string // "trivial", "discharged", "failed", "unknown"
	Solver  string
	Secs    float64
	Model   map[string]string
	Raw     string // solver output on failure
	Quant   bool
	Inputs  []*Term // terms whose values are read back on sat
	SMTFile string
	// optional extra hypothesis (known-finding region exclusion)
	Extra *Term
	relaxSat bool
	timedOut bool
	noSlice   bool
	coverBefore int // >0: the cover fails only if the path was satisfiable with the first coverBefore items
	ExpectSat bool // cover obligation: discharged when the path facts are satisfiable (or undecided), failed when unsat
	relaxOut string
}

type VC struct {
	rawSeen map[string]bool
	Fn      string
	items   []Item
	nfresh  map[string]int
	Obls    []*Obligation
	Notes   []string // havocked callees, assumptions used...
	Trusted map[string]bool
	oblSeen map[string]int
	specs   *SpecLib
	frozen  int // >0 while evaluating under a binder: no naming, no assumptions
	rootExec *Exec
	defs     map[string]*Term // named definitions: symbol -> defining term
	defByExpr map[string]*Term // hash-consing of definitions
	splitDepth int
}

func NewVC(fn string, specs *SpecLib) *VC {
	return &VC{Fn: fn, nfresh: map[string]int{}, Trusted: map[string]bool{}, oblSeen: map[string]int{}, specs: specs}
}

var symSafe = regexp.MustCompile(`[^A-Za-z0-9_.$!]`)

func (vc *VC) Fresh(hint, sort string) *Term {
	hint = symSafe.ReplaceAllString(hint, "_")
	if hint == "" {
		hint = "v"
	}
	n := vc.nfresh[hint]
	vc.nfresh[hint] = n + 1
	name := fmt.Sprintf("%s!%d", hint, n)
	vc.items = append(vc.items, Item{Name: name, Sort: sort})
	return Sym(name, sort)
}

// Define names a term (so later uses stay small); literals and symbols are returned as is.
func (vc *VC) Define(hint string, t *Term) *Term {
	if vc.frozen > 0 || t.Op == "lit" || t.Op == "sym" {
		return t
	}
	if t.Name == "ctor" {
		// keep constructor applications structural so selectors cancel, but name big arguments
		args := make([]*Term, len(t.Args))
		for i, a := range t.Args {
			args[i] = vc.Define(hint, a)
		}
		return Mk(t.Op, t.Sort, args...)
	}
	if len(t.String()) < 24 {
		return t
	}
	if vc.defByExpr == nil {
		vc.defByExpr = map[string]*Term{}
		vc.defs = map[string]*Term{}
	}
	key := t.Sort + "|" + t.String()
	if prev, ok := vc.defByExpr[key]; ok {
		return prev
	}
	s := vc.Fresh(hint, t.Sort)
	vc.items = append(vc.items, Item{Assert: App("=", SBool, s, t), Def: s.Name})
	vc.defByExpr[key] = s
	vc.defs[s.Name] = t
	return s
}

func (vc *VC) Assume(guard, fact *Term) {
	if vc.frozen > 0 {
		return
	}
	// (forall x. P) => Q with Q quantifier-free is assumed as its contrapositive  not Q => exists x. not P
	{
		var pre []*Term
		f := fact
		for f.Op == "=>" && len(f.Args) == 2 && !hasQuant(f.Args[0]) {
			pre = append(pre, f.Args[0])
			f = f.Args[1]
		}
		if f.Op == "=>" && len(f.Args) == 2 && hasQuant(f.Args[0]) && !hasQuant(f.Args[1]) {
			f = Implies(Not(f.Args[1]), Not(f.Args[0]))
			for i := len(pre) - 1; i >= 0; i-- {
				f = Implies(pre[i], f)
			}
			fact = f
		}
	}
	// an assumed existential is skolemised here (named witnesses esk!N), so that the witness is a constant the
	// goal-directed instantiation can use
	{
		var pre []*Term
		f := fact
		for f.Op == "=>" && len(f.Args) == 2 {
			pre = append(pre, f.Args[0])
			f = f.Args[1]
		}
		// A or exists x. P  is  not A => exists x. P
		if f.Op == "or" {
			var ex *Term
			var rest []*Term
			for _, d := range f.Args {
				if d.Op == "exists" && ex == nil {
					ex = d
				} else {
					rest = append(rest, d)
				}
			}
			if ex != nil && !hasQuant(Or(rest...)) {
				pre = append(pre, Not(Or(rest...)))
				f = ex
			}
		}
		// also look one level into a conjunction-free body: (exists ...) directly
		if f.Op == "exists" && len(f.QVars) > 0 {
			b := f.Args[0]
			for _, v := range f.QVars {
				b = substT(b, v[0], vc.Fresh("esk", v[1]))
			}
			g := guard
			for _, p := range pre {
				g = And(g, p)
			}
			// conjuncts separately, so that universally quantified conjuncts become top-level universals
			if b.Op == "and" {
				for _, c := range b.Args {
					vc.Assume(g, c)
				}
			} else {
				vc.Assume(g, b)
			}
			return
		}
	}
	// quantified facts: iff is split into two implications and conjunctions under implications are flattened,
	// so that universally quantified conjuncts end up as top-level universals (instantiable goal-directedly)
	if hasQuant(fact) && vc.splitDepth < 3 {
		f := fact
		var pre []*Term
		for f.Op == "=>" && len(f.Args) == 2 {
			pre = append(pre, f.Args[0])
			f = f.Args[1]
		}
		wrap := func(t *Term) *Term {
			for i := len(pre) - 1; i >= 0; i-- {
				t = Implies(pre[i], t)
			}
			return t
		}
		if f.Op == "=" && len(f.Args) == 2 && f.Args[0].Sort == SBool {
			vc.splitDepth++
			vc.Assume(guard, wrap(Implies(f.Args[0], f.Args[1])))
			vc.Assume(guard, wrap(Implies(f.Args[1], f.Args[0])))
			vc.splitDepth--
			return
		}
		if parts := splitGoal(fact); len(parts) > 1 {
			vc.splitDepth++
			for _, p := range parts {
				vc.Assume(guard, p)
			}
			vc.splitDepth--
			return
		}
	}
	f := Implies(guard, fact)
	if f.IsTrue() {
		return
	}
	vc.items = append(vc.items, Item{Assert: f})
}

func (vc *VC) Note(format string, a ...interface{}) {
	s := fmt.Sprintf(format, a...)
	for _, n := range vc.Notes {
		if n == s {
			return
		}
	}
	vc.Notes = append(vc.Notes, s)
}

func (vc *VC) Oblige(kind, name, desc, pos string, guard, goal *Term, inputs []*Term) *Obligation {
	full := vc.Fn + "#" + kind
	if name != "" {
		full += ":" + name
	}
	n := vc.oblSeen[full]
	vc.oblSeen[full] = n + 1
	if n > 0 {
		full = fmt.Sprintf("%s#%d", full, n+1)
	}
	o := &Obligation{Fn: vc.Fn, Name: full, Kind: kind, Desc: desc, Pos: pos, Guard: guard, Goal: goal, itemPos: len(vc.items), vc: vc, Inputs: inputs}
	if goal.IsTrue() || guard.IsFalse() {
		o.Status = "trivial"
	}
	vc.Obls = append(vc.Obls, o)
	return o
}

// hasQuant: the term contains a quantifier node.
func hasQuant(t *Term) bool {
	if t == nil {
		return false
	}
	if t.hq != 0 {
		return t.hq == 2
	}
	r := t.Op == "forall" || t.Op == "exists"
	if !r {
		for _, a := range t.Args {
			if hasQuant(a) {
				r = true
				break
			}
		}
	}
	if r {
		t.hq = 2
	} else {
		t.hq = 1
	}
	return r
}

// splitGoal flattens conjunctions under implications when they contain quantified conjuncts, so that each
// quantified conjunct becomes its own obligation (and can be skolemised goal-directedly).
func splitGoal(g *Term) []*Term {
	if !hasQuant(g) {
		return []*Term{g}
	}
	switch g.Op {
	case "=>":
		if len(g.Args) == 2 {
			var out []*Term
			for _, s := range splitGoal(g.Args[1]) {
				out = append(out, Implies(g.Args[0], s))
			}
			return out
		}
	case "and":
		var out []*Term
		var plain []*Term
		for _, a := range g.Args {
			if hasQuant(a) {
				out = append(out, splitGoal(a)...)
			} else {
				plain = append(plain, a)
			}
		}
		if len(plain) > 0 {
			out = append([]*Term{And(plain...)}, out...)
		}
		return out
	}
	return []*Term{g}
}

// ObligeAll is Oblige with splitting of quantified conjunctions (names name, name.c2, name.c3 ...).
func (vc *VC) ObligeAll(kind, name, desc, pos string, guard, goal *Term, inputs []*Term) []*Obligation {
	parts := splitGoal(goal)
	var out []*Obligation
	for i, p := range parts {
		n := name
		if i > 0 {
			n = fmt.Sprintf("%s.c%d", name, i+1)
		}
		out = append(out, vc.Oblige(kind, n, desc, pos, guard, p, inputs))
	}
	return out
}

// ---------- emission ----------

const preambleFixed = `(set-option :produce-models true)
(set-logic ALL)
(declare-sort Str 0)
(declare-sort Float 0)
(declare-datatypes ((Slice 0) (Iface 0)) (
  ((mk-slice (s.ref Int) (s.off (_ BitVec 64)) (s.len (_ BitVec 64)) (s.cap (_ BitVec 64))))
  ((mk-iface (i.tag Int) (i.ref Int)))))
(declare-fun strlen (Str) (_ BitVec 64))
(declare-fun strarr (Str) (Array (_ BitVec 64) (_ BitVec 8)))
(declare-const strempty Str)
(declare-const float.zero Float)
(declare-fun float.of ((_ BitVec 64)) Float)
(declare-fun strcat (Str Str) Str)
(declare-fun strsub (Str (_ BitVec 64) (_ BitVec 64)) Str)
(declare-fun strof ((Array (_ BitVec 64) (_ BitVec 8)) (_ BitVec 64) (_ BitVec 64)) Str)
(declare-fun strlt (Str Str) Bool)
(declare-fun timeunix ((_ BitVec 128)) (_ BitVec 64))
(assert (= (strlen strempty) #x0000000000000000))
(define-fun str_ok ((s Str)) Bool (and (bvsle #x0000000000000000 (strlen s)) (bvsle (strlen s) ` + maxLenLit + `)))
(define-fun ref_ok ((r Int) (ac Int)) Bool (and (<= 0 r) (< r ac)))
(define-fun time_ok ((t (_ BitVec 128))) Bool (and (bvsle #xfffffff0000000000000000000000000 t) (bvsle t #x00000010000000000000000000000000)))
(define-fun slice_ok ((s Slice) (ac Int)) Bool (and (<= 0 (s.ref s)) (< (s.ref s) ac)
  (bvsle #x0000000000000000 (s.off s)) (bvsle (s.off s) ` + maxLenLit + `)
  (bvsle #x0000000000000000 (s.len s)) (bvsle (s.len s) (s.cap s)) (bvsle (s.cap s) ` + maxLenLit + `)
  (=> (= (s.ref s) 0) (= (s.cap s) #x0000000000000000))))
(define-fun iface_ok ((i Iface) (ac Int)) Bool (and (<= 0 (i.tag i)) (<= 0 (i.ref i)) (< (i.ref i) ac) (=> (= (i.tag i) 0) (= (i.ref i) 0))))
`

func (o *Obligation) SMT(withModel bool) string {
	vc := o.vc
	var body strings.Builder
	var seqDiffs []string
	items := vc.items[:o.itemPos]
	seeds := map[string]bool{}
	o.Guard.symbols(seeds)
	o.Goal.symbols(seeds)
	if o.Extra != nil {
		o.Extra.symbols(seeds)
	}
	for _, t := range o.Inputs {
		t.symbols(seeds)
	}
	keep := sliceItems(items, seeds)
	if o.noSlice {
		for i := range keep {
			keep[i] = true
		}
	}
	for i, it := range items {
		if !keep[i] {
			continue
		}
		switch {
		case it.Raw != "":
			body.WriteString(it.Raw + "\n")
		case it.Assert != nil:
			body.WriteString("(assert " + it.Assert.String() + ")\n")
		default:
			body.WriteString("(declare-const " + it.Name + " " + it.Sort + ")\n")
		}
	}
	// extensionality instances for byte sequences: two BSeq terms are equal, or differ in length, or differ
	// at a witness position (valid under the extensional reading of BSeq; lets the solver connect memory
	// contents built by copy/append with the RFC compositions inside uninterpreted primitives)
	if vc.rootExec != nil && vc.rootExec.con != nil && vc.rootExec.con.Raw["seq_extensionality"] != nil {
		seen := map[string]*Term{}
		var order []string
		var walk func(t *Term)
		walk = func(t *Term) {
			if t == nil || t.Op == "forall" || t.Op == "exists" {
				return
			}
			if t.Sort == "BSeq" {
				k := t.String()
				if _, ok := seen[k]; !ok {
					seen[k] = t
					order = append(order, k)
				}
			}
			for _, a := range t.Args {
				walk(a)
			}
		}
		for i, it := range items {
			if keep[i] && it.Assert != nil {
				walk(it.Assert)
			}
		}
		walk(o.Goal)
		walk(o.Guard)
		interesting := func(t *Term) bool {
			switch t.Op {
			case "bseq.of", "seqcat", "seqtrunc", "seqsub", "seqzeros", "seqbyte", "seqbe32", "seqle32":
				return true
			}
			return false
		}
		n := 0
		for i := 0; i < len(order) && n < 400; i++ {
			for j := i + 1; j < len(order) && n < 400; j++ {
				a, b := seen[order[i]], seen[order[j]]
				if !interesting(a) && !interesting(b) {
					continue
				}
				d := fmt.Sprintf("seqdiff!%d", n)
				n++
				// witnesses of differences with a sequence mentioned in the goal are instantiation points for the
				// universal assumptions (pointwise loop invariants)
				if len(seqDiffs) < 12 && (strings.Contains(o.Goal.String(), a.String()) || strings.Contains(o.Goal.String(), b.String())) {
					seqDiffs = append(seqDiffs, d)
				}
				body.WriteString("(declare-const " + d + " (_ BitVec 64))\n")
				body.WriteString(fmt.Sprintf("(assert (or (= %s %s) (not (= (bseq.len %s) (bseq.len %s))) (and (bvsle #x0000000000000000 %s) (bvslt %s (bseq.len %s)) (not (= (bseq.at %s %s) (bseq.at %s %s))))))\n",
					a, b, a, b, d, d, a, a, d, b, d))
			}
		}
	}
	body.WriteString("; ---- obligation " + o.Name + "\n; " + strings.ReplaceAll(o.Desc, "\n", " ") + "\n")
	if o.Extra != nil {
		body.WriteString("(assert " + o.Extra.String() + ")\n")
	}
	body.WriteString("(assert " + o.Guard.String() + ")\n")
	// Goal-directed instantiation at term level (E-matching does not fire on triggers with arithmetic inside,
	// such as s[off+i]). The negated goal is put in negation normal form and its existentials are skolemised;
	// its universals are instantiated at the witness constants (skolem constants, witnesses of assumed
	// existentials, index-like constants of the function); the universal assumptions are instantiated at the
	// skolem constants; existentials appearing in instances are skolemised in turn. Every added assertion is
	// a consequence of the negated goal and the assumptions, so validity is unchanged.
	if o.ExpectSat || !hasQuantAny(o.Goal, items, keep) {
		body.WriteString("(assert (not " + o.Goal.String() + "))\n")
		if !o.ExpectSat && len(seqDiffs) > 0 {
			n := 0
			for i, it := range items {
				if !keep[i] || it.Assert == nil || n > 60 {
					continue
				}
				f := it.Assert
				var pre []*Term
				for f.Op == "=>" && len(f.Args) == 2 {
					pre = append(pre, f.Args[0])
					f = f.Args[1]
				}
				if f.Op != "forall" || len(f.QVars) != 1 || f.QVars[0][1] != BV(64) {
					continue
				}
				for _, d := range seqDiffs {
					inst := substT(f.Args[0], f.QVars[0][0], Sym(d, BV(64)))
					for k := len(pre) - 1; k >= 0; k-- {
						inst = Implies(pre[k], inst)
					}
					body.WriteString("(assert " + inst.String() + ")\n")
					n++
				}
			}
		}
	} else {
		type skc struct{ name, sort string }
		nsk := 0
		var gconsts []skc // constants introduced by the (negated) goal and its instances
		mk := func(list *[]skc, prefix string) func(sort string) *Term {
			return func(sort string) *Term {
				n := fmt.Sprintf("%s!%d", prefix, nsk)
				nsk++
				body.WriteString("(declare-const " + n + " " + sort + ")\n")
				*list = append(*list, skc{n, sort})
				return Sym(n, sort)
			}
		}
		ng := skolemPos(Not(o.Goal), mk(&gconsts, "gsk"))
		body.WriteString("(assert " + ng.String() + ")\n")
		var univ []*Term
		var collect func(t *Term)
		collect = func(t *Term) {
			switch t.Op {
			case "and":
				for _, a := range t.Args {
					collect(a)
				}
			case "forall":
				univ = append(univ, t)
			}
		}
		collect(ng)
		// witness-like constants of the function
		var wconsts []skc
		for i, it := range items {
			if !keep[i] || it.Assert != nil || it.Raw != "" {
				continue
			}
			if strings.HasPrefix(it.Name, "esk!") || strings.HasPrefix(it.Name, "i!") || strings.HasPrefix(it.Name, "rangeindex!") || strings.HasPrefix(it.Name, "j!") || strings.HasPrefix(it.Name, "idx!") || strings.HasPrefix(it.Name, "key!") {
				wconsts = append(wconsts, skc{it.Name, it.Sort})
			}
		}
		// ground index terms: X in s[off+X] occurring in the kept facts and the goal (for example the element picked
		// by a random index or the last element before a truncation)
		if o.instLevel >= 1 {
			seenIdx := map[string]bool{}
			var walkIdx func(t *Term)
			walkIdx = func(t *Term) {
				if t == nil || len(seenIdx) > 10 {
					return
				}
				if t.Op == "bvadd" && len(t.Args) == 2 && t.Args[0].Op == "s.off" && t.Args[1].Sort == BV(64) && !t.Args[1].IsLit() {
					s := t.Args[1].String()
					if !seenIdx[s] && !strings.Contains(s, " q.") && !strings.Contains(s, "(q.") && !strings.HasPrefix(s, "q.") && len(s) < 200 {
						seenIdx[s] = true
						wconsts = append(wconsts, skc{s, BV(64)})
					}
				}
				if t.Op == "forall" || t.Op == "exists" {
					return
				}
				for _, a := range t.Args {
					walkIdx(a)
				}
			}
			for i, it := range items {
				if keep[i] && it.Assert != nil && !hasQuant(it.Assert) {
					walkIdx(it.Assert)
				}
			}
		}
		var iconsts []skc // constants introduced by instances of the goal's universals
		m := 0
		for _, u := range univ {
			cands := append(append([]skc{}, gconsts...), wconsts...)
			// E-matching by hand: ground terms of the assumptions that occur where a bound variable occurs in the
			// goal (same uninterpreted function symbol, same argument position)
			for qi, qv := range u.QVars {
				_ = qi
				want := map[string]bool{}
				argPositions(u.Args[0], qv[0], want)
				if len(want) == 0 {
					continue
				}
				seen := map[string]bool{}
				for i, it := range items {
					if !keep[i] || it.Assert == nil {
						continue
					}
					groundArgsAt(it.Assert, want, func(t *Term) {
						if t.Sort != qv[1] || len(seen) > 12 {
							return
						}
						s := t.String()
						if seen[s] || strings.Contains(s, " q.") || strings.Contains(s, "(q.") || strings.HasPrefix(s, "q.") {
							return
						}
						seen[s] = true
						cands = append(cands, skc{s, t.Sort})
					})
				}
			}
			switch len(u.QVars) {
			case 1:
				for _, c := range cands {
					if c.sort != u.QVars[0][1] || m > 80 {
						continue
					}
					inst := skolemPos(substT(u.Args[0], u.QVars[0][0], Sym(c.name, c.sort)), mk(&iconsts, "isk"))
					body.WriteString("(assert " + inst.String() + ")\n")
					m++
				}
			case 2:
				k := 0
				for _, a := range cands {
					for _, b := range cands {
						if a.sort != u.QVars[0][1] || b.sort != u.QVars[1][1] || k > 36 {
							continue
						}
						inst := substT(substT(u.Args[0], u.QVars[0][0], Sym(a.name, a.sort)), u.QVars[1][0], Sym(b.name, b.sort))
						body.WriteString("(assert " + skolemPos(inst, mk(&iconsts, "isk")).String() + ")\n")
						k++
					}
				}
			}
		}
		// universal assumptions at the goal's constants
		var sink []skc
		n := 0
		targets := append(append([]skc{}, gconsts...), iconsts...)
		// a few witness-like constants / index terms as well (kept small: every universal gets an instance per target)
		if o.instLevel >= 1 {
			for i, w := range wconsts {
				if i < 10 {
					targets = append(targets, w)
				}
			}
		}
		for i, it := range items {
			if !keep[i] || it.Assert == nil || n > 300 || len(targets) == 0 {
				continue
			}
			f := it.Assert
			var pre []*Term
			for f.Op == "=>" && len(f.Args) == 2 {
				pre = append(pre, f.Args[0])
				f = f.Args[1]
			}
			if f.Op == "forall" && len(f.QVars) == 2 {
				k2 := 0
				all := append(append([]skc{}, targets...), wconsts...)
				for ai, a := range all {
					for bi, b := range all {
						if a.sort != f.QVars[0][1] || b.sort != f.QVars[1][1] || a.name == b.name || k2 > 24 {
							continue
						}
						if ai >= len(targets) && bi >= len(targets) {
							continue // at least one of the goal's own constants
						}
						inst := substT(substT(f.Args[0], f.QVars[0][0], Sym(a.name, a.sort)), f.QVars[1][0], Sym(b.name, b.sort))
						inst = skolemPos(inst, mk(&sink, "isk"))
						for k := len(pre) - 1; k >= 0; k-- {
							inst = Implies(pre[k], inst)
						}
						body.WriteString("(assert " + inst.String() + ")\n")
						k2++
						n++
					}
				}
				continue
			}
			if f.Op != "forall" || len(f.QVars) != 1 {
				continue
			}
			for _, sk := range targets {
				if sk.sort != f.QVars[0][1] {
					continue
				}
				inst := skolemPos(substT(f.Args[0], f.QVars[0][0], Sym(sk.name, sk.sort)), mk(&sink, "isk"))
				for k := len(pre) - 1; k >= 0; k-- {
					inst = Implies(pre[k], inst)
				}
				body.WriteString("(assert " + inst.String() + ")\n")
				n++
			}
		}
		// second round: the goal's universals at the witnesses of the assumption instances
		var sink2 []skc
		m = 0
		for _, u := range univ {
			if len(u.QVars) != 1 {
				continue
			}
			for _, c := range sink {
				if c.sort != u.QVars[0][1] || m > 80 {
					continue
				}
				inst := skolemPos(substT(u.Args[0], u.QVars[0][0], Sym(c.name, c.sort)), mk(&sink2, "isk"))
				body.WriteString("(assert " + inst.String() + ")\n")
				m++
			}
		}
	}
	text := body.String()
	// sorts and spec symbols used
	toks := tokenize(text)
	structSorts := map[string]bool{}
	used := map[string]bool{}
	for _, tk := range toks {
		used[tk] = true
		if strings.HasPrefix(tk, "T_") {
			if i := strings.Index(tk, "."); i > 0 && structInfoBySort(tk[:i]) != nil {
				structSorts[tk[:i]] = true
			} else {
				structSorts[tk] = true
			}
		} else if strings.HasPrefix(tk, "mk.T_") {
			structSorts[tk[3:]] = true
		} else if strings.HasPrefix(tk, "inv.T_") {
			structSorts[tk[4:]] = true
		}
	}
	specText := ""
	if vc.specs != nil {
		var extraSorts []string
		specText, extraSorts = vc.specs.Select(used)
		for _, s := range extraSorts {
			structSorts[s] = true
		}
	}
	var sb strings.Builder
	sb.WriteString(preambleFixed)
	// engine-generated identifiers of dynamic types (tid.*) and function values (fid.*)
	idDefs := map[string]bool{}
	for _, tk := range append(toks, tokenize(specText)...) {
		if (strings.HasPrefix(tk, "tid.") || strings.HasPrefix(tk, "fid.")) && !idDefs[tk] {
			idDefs[tk] = true
		}
	}
	var idNames []string
	for k := range idDefs {
		idNames = append(idNames, k)
	}
	sort.Strings(idNames)
	for _, k := range idNames {
		sb.WriteString(fmt.Sprintf("(define-fun %s () Int %d)\n", k, vc.rootExec.P.symbolID(k)))
	}
	dt := datatypeDecl(structSorts)
	if dt != "" {
		sb.WriteString(dt + "\n")
	}
	var ss []string
	for s := range structSorts {
		ss = append(ss, s)
	}
	for _, d := range invDefs(ss) {
		sb.WriteString(d + "\n")
	}
	// sequence constants for literals: seqlit.<hex of the bytes>, declared right after bseq.at
	var litDecl strings.Builder
	litSeen := map[string]bool{}
	for _, tk := range append(toks, tokenize(specText)...) {
		if strings.HasPrefix(tk, "seqlit.") && !litSeen[tk] {
			litSeen[tk] = true
			bs, err := hex.DecodeString(tk[len("seqlit."):])
			if err != nil {
				continue
			}
			litDecl.WriteString("(declare-const " + tk + " BSeq)\n")
			litDecl.WriteString(fmt.Sprintf("(assert (= (bseq.len %s) #x%016x))\n", tk, len(bs)))
			for i, b := range bs {
				litDecl.WriteString(fmt.Sprintf("(assert (= (bseq.at %s #x%016x) #x%02x))\n", tk, i, b))
			}
		}
	}
	if litDecl.Len() > 0 {
		marker := "(declare-fun bseq.at (BSeq (_ BitVec 64)) (_ BitVec 8))\n"
		if i := strings.Index(specText, marker); i >= 0 {
			specText = specText[:i+len(marker)] + litDecl.String() + specText[i+len(marker):]
		} else {
			specText += litDecl.String()
		}
	}
	sb.WriteString(specText)
	sb.WriteString(text)
	sb.WriteString("(check-sat)\n")
	if withModel && len(o.Inputs) > 0 {
		sb.WriteString("(get-value (")
		for _, t := range o.Inputs {
			sb.WriteString(t.String() + " ")
		}
		sb.WriteString("))\n")
	}
	return sb.String()
}

// ---------- solving ----------

type SolverCfg struct {
	Name string
	Args func(file string, timeoutS int) []string
}

var solvers = []SolverCfg{
	{"z3", func(f string, t int) []string { return []string{"z3", fmt.Sprintf("-T:%d", t), f} }},
	{"z3-new", func(f string, t int) []string { return []string{"z3-new", fmt.Sprintf("-T:%d", t), f} }},
	{"cvc5", func(f string, t int) []string {
		return []string{"cvc5", "--enum-inst", "--incremental", fmt.Sprintf("--tlimit=%d", t*1000), f}
	}},
}

type solveResult struct {
	verdict string
	out     string
	solver  string
	secs    float64
}

// at most this many solver processes at a time (the machine has 16 cores)
var solverSem = make(chan struct{}, 15)

func runSolver(ctx context.Context, sc SolverCfg, file string, timeoutS int) solveResult {
	solverSem <- struct{}{}
	defer func() { <-solverSem }()
	if ctx.Err() != nil {
		return solveResult{"unknown", "cancelled", sc.Name, 0}
	}
	t0 := time.Now()
	args := sc.Args(file, timeoutS)
	cctx, cancel := context.WithTimeout(ctx, time.Duration(timeoutS+2)*time.Second)
	defer cancel()
	cmd := exec.CommandContext(cctx, args[0], args[1:]...)
	var out bytes.Buffer
	cmd.Stdout = &out
	cmd.Stderr = &out
	_ = cmd.Run()
	s := out.String()
	verdict := "unknown"
	for _, line := range strings.Split(s, "\n") {
		line = strings.TrimSpace(line)
		if line == "unsat" || line == "sat" || line == "unknown" || line == "timeout" {
			verdict = line
			break
		}
		if strings.HasPrefix(line, "(error") {
			verdict = "error"
			break
		}
	}
	if verdict == "timeout" {
		verdict = "unknown"
	}
	return solveResult{verdict, s, sc.Name, time.Since(t0).Seconds()}
}

var workDir string

func ensureWorkDir() string {
	if workDir == "" {
		d, err := os.MkdirTemp("", "gowp-")
		if err != nil {
			panic(err)
		}
		workDir = d
	}
	return workDir
}

var fileSafe = regexp.MustCompile(`[^A-Za-z0-9_.#-]`)

// Solve discharges one obligation: z3 4.8 first (fast start), then z3-new and cvc5 raced.
func (o *Obligation) Solve(timeoutS int, keep bool) {
	if o.Status == "trivial" {
		return
	}
	defer func() {
		if r := recover(); r != nil {
			o.Status, o.Raw = "error", fmt.Sprintf("engine error while emitting: %v\n%s", r, debug.Stack())
		}
	}()
	if o.ExpectSat {
		o.solveCover(keep)
		return
	}
	text := o.SMT(true)
	o.Quant = strings.Contains(text, "(forall ") || strings.Contains(text, "(exists ")
	fn := fileSafe.ReplaceAllString(o.Name, "_")
	if len(fn) > 120 {
		fn = fn[:120]
	}
	// names differing only in characters that are not file-safe must not share a file
	hsum := sha1.Sum([]byte(o.Name))
	file := filepath.Join(ensureWorkDir(), fmt.Sprintf("%s.%x.smt2", fn, hsum[:4]))
	if err := os.WriteFile(file, []byte(text), 0644); err != nil {
		panic(err)
	}
	o.SMTFile = file
	t0 := time.Now()
	defer func() {
		o.Secs = time.Since(t0).Seconds()
		if !keep && o.Status == "discharged" {
			os.Remove(file)
		}
	}()
	ctx, cancel := context.WithCancel(context.Background())
	defer cancel()
	first := timeoutS
	if first > 3 {
		first = 3
	}
	// quantifier-free relaxation first: dropping the quantified assumptions is sound for discharging
	// (fewer hypotheses) and most obligations do not need them; it also tells apart a failing obligation
	// (relaxation sat) from a slow one
	o.relaxSat = false
	o.timedOut = false
	if o.Quant && !strings.Contains(o.Goal.String(), "(forall") && !strings.Contains(o.Goal.String(), "(exists") {
		var rb strings.Builder
		skip := 0
		for _, line := range strings.Split(text, "\n") {
			if skip > 0 {
				skip += strings.Count(line, "(") - strings.Count(line, ")")
				continue
			}
			if strings.HasPrefix(line, "(assert ") && (strings.Contains(line, "(forall ") || strings.Contains(line, "(exists ")) {
				skip = strings.Count(line, "(") - strings.Count(line, ")")
				continue
			}
			rb.WriteString(line + "\n")
		}
		rfile := strings.TrimSuffix(file, ".smt2") + ".relaxed.smt2"
		os.WriteFile(rfile, []byte(rb.String()), 0644)
		rr := runSolver(ctx, solvers[1], rfile, first)
		if !keep {
			os.Remove(rfile)
		}
		if rr.verdict == "unsat" {
			o.Status, o.Solver = "discharged", rr.solver+"(qf-relaxation)"
			return
		}
		if rr.verdict == "sat" {
			o.relaxSat = true
			o.relaxOut = rr.out
		}
	}
	r := runSolver(ctx, solvers[1], file, first) // z3-new: best all-round in calibration
	if r.verdict == "unsat" {
		o.Status, o.Solver = "discharged", r.solver
		return
	}
	if r.verdict == "sat" {
		o.Status, o.Solver, o.Raw = "failed", r.solver, r.out
		o.Model = parseModel(r.out)
		return
	}
	if r.verdict == "error" {
		// an ill-formed query is an engine defect, not a solver limit: report at once
		o.Status, o.Solver, o.Raw = "error", r.solver, firstLines(r.out, 4)
		return
	}
	// race the portfolio with the full timeout
	race := solvers
	if os.Getenv("GOWP_NO_CVC5") != "" {
		race = solvers[:2]
	}
	// a second variant of the query with more instantiation targets (witness constants and index terms for the
	// universal assumptions) runs alongside: more instances help some obligations and slow down others
	nrace := len(race)
	var file2 string
	if o.Quant {
		o.instLevel = 1
		t2 := o.SMT(true)
		o.instLevel = 0
		if t2 != text {
			file2 = strings.TrimSuffix(file, ".smt2") + ".more.smt2"
			os.WriteFile(file2, []byte(t2), 0644)
			nrace++
			if !keep {
				defer os.Remove(file2)
			}
		}
	}
	ch := make(chan solveResult, nrace)
	for _, sc := range race {
		sc := sc
		go func() { ch <- runSolver(ctx, sc, file, timeoutS) }()
	}
	if file2 != "" {
		go func() { ch <- runSolver(ctx, solvers[1], file2, timeoutS) }()
	}
	var last solveResult
	errs := ""
	for i := 0; i < nrace; i++ {
		r := <-ch
		switch r.verdict {
		case "unsat":
			o.Status, o.Solver, o.Raw = "discharged", r.solver, ""
			return
		case "sat":
			o.Status, o.Solver, o.Raw = "failed", r.solver, r.out
			o.Model = parseModel(r.out)
			return
		case "error":
			errs += r.solver + ": " + firstLines(r.out, 3) + "\n"
		}
		last = r
	}
	o.Status, o.Solver, o.Raw = "unknown", "portfolio", errs+firstLines(last.out, 5)
	o.timedOut = true
	if o.relaxSat {
		// the quantifier-free relaxation has a model and no solver proved the full obligation: reported as
		// failing with the relaxation's model (the replay decides whether it is a real input)
		o.Status, o.Solver, o.Raw = "failed", "portfolio+qf-relaxation-model", o.relaxOut
		o.Model = parseModel(o.relaxOut)
	}
}

func firstLines(s string, n int) string {
	ls := strings.Split(s, "\n")
	if len(ls) > n {
		ls = ls[:n]
	}
	return strings.Join(ls, "\n")
}

// parseModel reads the (get-value ...) answer: ((term value) ...)
func parseModel(out string) map[string]string {
	i := strings.Index(out, "((")
	if i < 0 {
		return nil
	}
	s := out[i:]
	m := map[string]string{}
	// s-expression split at depth 1
	depth := 0
	start := -1
	for j := 0; j < len(s); j++ {
		switch s[j] {
		case '(':
			depth++
			if depth == 2 {
				start = j
			}
		case ')':
			depth--
			if depth == 1 && start >= 0 {
				pair := s[start+1 : j]
				k, v := splitFirstSexp(pair)
				m[strings.TrimSpace(k)] = strings.TrimSpace(v)
				start = -1
			}
			if depth == 0 {
				return m
			}
		}
	}
	return m
}

func splitFirstSexp(s string) (string, string) {
	s = strings.TrimSpace(s)
	if s == "" {
		return "", ""
	}
	if s[0] != '(' {
		i := strings.IndexAny(s, " \n\t")
		if i < 0 {
			return s, ""
		}
		return s[:i], s[i+1:]
	}
	depth := 0
	for i := 0; i < len(s); i++ {
		switch s[i] {
		case '(':
			depth++
		case ')':
			depth--
			if depth == 0 {
				return s[:i+1], s[i+1:]
			}
		}
	}
	return s, ""
}

// SolveAll runs obligations on a worker pool.
func SolveAll(obls []*Obligation, timeoutS int, workers int, keep bool) {
	// terms memoise their text and quantifier flag lazily: force both before the workers share them
	seenVC := map[*VC]bool{}
	for _, o := range obls {
		if o.Goal != nil {
			_ = o.Goal.String()
			hasQuant(o.Goal)
		}
		if o.Guard != nil {
			_ = o.Guard.String()
		}
		if o.vc != nil && !seenVC[o.vc] {
			seenVC[o.vc] = true
			for _, it := range o.vc.items {
				if it.Assert != nil {
					_ = it.Assert.String()
					hasQuantDeep(it.Assert)
				}
			}
		}
	}
	var wg sync.WaitGroup
	ch := make(chan *Obligation)
	for i := 0; i < workers; i++ {
		wg.Add(1)
		go func() {
			defer wg.Done()
			for o := range ch {
				o.Solve(timeoutS, keep)
			}
		}()
	}
	// larger first is not known; keep deterministic order
	sort.SliceStable(obls, func(i, j int) bool { return obls[i].Name < obls[j].Name })
	for _, o := range obls {
		ch <- o
	}
	close(ch)
	wg.Wait()
}

// solveCover: the guard must be satisfiable together with all assumptions made before this point.
func (o *Obligation) solveCover(keep bool) {
	t0 := time.Now()
	// all items (no slicing: an inconsistency anywhere matters)
	saveGoal := o.Goal
	o.Goal = False
	o.noSlice = true
	text := o.SMT(false)
	o.noSlice = false
	o.Goal = saveGoal
	hsum := sha1.Sum([]byte(o.Name))
	file := filepath.Join(ensureWorkDir(), fmt.Sprintf("cover_%s.%x.smt2", fileSafe.ReplaceAllString(trunc(o.Name, 100), "_"), hsum[:4]))
	os.WriteFile(file, []byte(text), 0644)
	// quantifier-free relaxation (answers at once; contradictions hidden behind quantified facts are left to
	// the thorough tier)
	if os.Getenv("VERIF_TIER") != "thorough" {
		text = relaxQuantifiers(text)
		os.WriteFile(file, []byte(text), 0644)
	}
	r := runSolver(context.Background(), solvers[1], file, 4)
	o.Secs = time.Since(t0).Seconds()
	o.Quant = strings.Contains(text, "(forall ")
	if r.verdict == "unsat" && o.coverBefore > 0 {
		// was the call reachable at all? (dead code after a contradiction-free prefix is not vacuity)
		savePos := o.itemPos
		o.itemPos = o.coverBefore
		o.Goal = False
		o.noSlice = true
		t2 := relaxQuantifiers(o.SMT(false))
		o.noSlice = false
		o.Goal = saveGoal
		o.itemPos = savePos
		f2 := strings.TrimSuffix(file, ".smt2") + ".before.smt2"
		os.WriteFile(f2, []byte(t2), 0644)
		r2 := runSolver(context.Background(), solvers[1], f2, 4)
		os.Remove(f2)
		if r2.verdict == "unsat" {
			// unreachable already before the call: dead code, not a contradiction introduced here
			os.Remove(file)
			o.Status, o.Solver = "discharged", r.solver+"(cover:dead-code)"
			return
		}
	}
	if r.verdict == "unsat" {
		o.Status, o.Solver, o.Raw = "failed", r.solver, "the assumptions on this path are contradictory: everything after them would be vacuously true"
		o.SMTFile = file
		return
	}
	if !keep {
		os.Remove(file)
	}
	o.Status, o.Solver = "discharged", r.solver+"(cover:"+r.verdict+")"
}

// relaxQuantifiers drops quantified assertions (multi-line aware).
func relaxQuantifiers(text string) string {
	var rb strings.Builder
	skip := 0
	for _, line := range strings.Split(text, "\n") {
		if skip > 0 {
			skip += strings.Count(line, "(") - strings.Count(line, ")")
			continue
		}
		if strings.HasPrefix(line, "(assert ") && (strings.Contains(line, "(forall ") || strings.Contains(line, "(exists ")) {
			skip = strings.Count(line, "(") - strings.Count(line, ")")
			continue
		}
		rb.WriteString(line + "\n")
	}
	return rb.String()
}

// replaceSymbol replaces whole-token occurrences of a symbol in SMT text.
func replaceSymbol(text, from, to string) string {
	var sb strings.Builder
	i := 0
	for i < len(text) {
		j := strings.Index(text[i:], from)
		if j < 0 {
			sb.WriteString(text[i:])
			break
		}
		j += i
		before := j == 0 || strings.ContainsRune("() \n\t", rune(text[j-1]))
		after := j+len(from) >= len(text) || strings.ContainsRune("() \n\t", rune(text[j+len(from)]))
		sb.WriteString(text[i:j])
		if before && after {
			sb.WriteString(to)
		} else {
			sb.WriteString(from)
		}
		i = j + len(from)
	}
	return sb.String()
}

// substT substitutes the symbol named from by to (term level; quantifiers binding from shadow it).
func substT(t *Term, from string, to *Term) *Term {
	switch t.Op {
	case "sym":
		if t.Name == from {
			return to
		}
		return t
	case "lit":
		return t
	case "forall", "exists":
		for _, v := range t.QVars {
			if v[0] == from {
				return t
			}
		}
		b := substT(t.Args[0], from, to)
		if b == t.Args[0] {
			return t
		}
		if t.Op == "forall" {
			return Forall(t.QVars, b)
		}
		return Exists(t.QVars, b)
	case "opaque", "constarr":
		if len(t.Args) == 0 {
			s := replaceSymbol(t.String(), from, to.String())
			if s == t.String() {
				return t
			}
			n := *t
			n.str = s
			n.hq = 0
			return &n
		}
	}
	if len(t.Args) == 0 {
		return t
	}
	changed := false
	args := make([]*Term, len(t.Args))
	for i, a := range t.Args {
		args[i] = substT(a, from, to)
		if args[i] != a {
			changed = true
		}
	}
	if !changed {
		return t
	}
	n := *t
	n.Args = args
	n.str = ""
	n.hq = 0
	return &n
}

// skolemPos replaces the existentials in positive position (below and / or / conclusions of implications) by
// their bodies over fresh constants. The free symbols of t are constants, so no Skolem functions are needed.
func skolemPos(t *Term, fresh func(sort string) *Term) *Term {
	if !hasQuant(t) {
		return t
	}
	switch t.Op {
	case "exists":
		b := t.Args[0]
		for _, v := range t.QVars {
			b = substT(b, v[0], fresh(v[1]))
		}
		return skolemPos(b, fresh)
	case "and", "or":
		args := make([]*Term, len(t.Args))
		for i, a := range t.Args {
			args[i] = skolemPos(a, fresh)
		}
		n := *t
		n.Args = args
		n.str = ""
		n.hq = 0
		return &n
	case "=>":
		if len(t.Args) == 2 && !hasQuant(t.Args[0]) {
			return Implies(t.Args[0], skolemPos(t.Args[1], fresh))
		}
	}
	return t
}

func hasQuantAny(goal *Term, items []Item, keep []bool) bool {
	return hasQuant(goal)
}

var interpretedOps = map[string]bool{"select": true, "store": true, "=": true, "ite": true, "and": true, "or": true, "not": true, "=>": true,
	"bvadd": true, "bvsub": true, "bvmul": true, "bvsle": true, "bvslt": true, "bvsge": true, "bvsgt": true, "bvule": true, "bvult": true,
	"bvuge": true, "bvugt": true, "concat": true, "+": true, "-": true, "<": true, "<=": true, ">": true, ">=": true, "distinct": true}

// argPositions records "f#i" for every application f(..., x, ...) of an uninterpreted f with the symbol x as i-th argument.
func argPositions(t *Term, x string, out map[string]bool) {
	if t == nil {
		return
	}
	for i, a := range t.Args {
		if a.Op == "sym" && a.Name == x && !interpretedOps[t.Op] && t.Op != "forall" && t.Op != "exists" && !strings.HasPrefix(t.Op, "(_") {
			out[fmt.Sprintf("%s#%d", t.Op, i)] = true
		}
		argPositions(a, x, out)
	}
}

func groundArgsAt(t *Term, want map[string]bool, emit func(*Term)) {
	if t == nil {
		return
	}
	for i, a := range t.Args {
		if want[fmt.Sprintf("%s#%d", t.Op, i)] {
			emit(a)
		}
		groundArgsAt(a, want, emit)
	}
}

// hasQuantDeep memoises hasQuant on every subterm (single-threaded warm-up before parallel solving).
func hasQuantDeep(t *Term) {
	if t == nil || t.hq != 0 {
		return
	}
	for _, a := range t.Args {
		hasQuantDeep(a)
	}
	hasQuant(t)
}
