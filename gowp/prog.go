package main

// Loading /repo/v8 (with -tags verif so the comment-only contract files are parsed),
// building go/ssa, indexing functions, source lines, call graph and modification sets.

import (
	"crypto/sha1"
	"fmt"
	"go/ast"
	"go/token"
	"go/types"
	"os"
	"sort"
	"strings"
	"sync"

	"golang.org/x/tools/go/packages"
	"golang.org/x/tools/go/ssa"
	"golang.org/x/tools/go/ssa/ssautil"
)

type Program struct {
	Fset      *token.FileSet
	Pkgs      []*packages.Package
	SSA       *ssa.Program
	SPkgs     []*ssa.Package
	Funcs     map[string]*ssa.Function // short name -> function (repo functions, incl. methods and closures)
	AllFuncs  map[*ssa.Function]bool
	Contracts map[string]*Contract // by short function name (repo + model)
	Specs     *SpecLib
	srcLines  map[string][]string
	modCache  map[*ssa.Function]map[string]string
	modBusy   map[*ssa.Function]bool
	Impl      map[string][]*ssa.Function // interface method short name -> repo implementations
	TypeSpecs map[string]*TypeSpec       // by short type name: guarded_by etc.
	RepoDir   string
	mu        sync.Mutex
	srcMu     sync.Mutex
	symIDs    map[string]int64
	AssumedObls []AssumedObl
	Defines     map[string]*Define
	Ghosts      map[string]*GhostVar
	guards      map[string]*GuardInfo
	guardList   []*GuardInfo
}

func shortName(s string) string {
	s = strings.ReplaceAll(s, modPrefix, "")
	return s
}

func fnName(f *ssa.Function) string { return shortName(f.RelString(nil)) }

func inRepo(f *ssa.Function) bool {
	if f == nil {
		return false
	}
	p := f.Pkg
	if p == nil && f.Parent() != nil {
		return inRepo(f.Parent())
	}
	if p == nil {
		// method of instantiated/wrapper: use Origin / receiver package
		if f.Object() != nil && f.Object().Pkg() != nil {
			return strings.HasPrefix(f.Object().Pkg().Path(), strings.TrimSuffix(modPrefix, "/"))
		}
		return false
	}
	return strings.HasPrefix(p.Pkg.Path(), strings.TrimSuffix(modPrefix, "/"))
}

func LoadProgram(dir string, overlay map[string][]byte) (*Program, error) {
	cfg := &packages.Config{
		Mode:       packages.LoadAllSyntax,
		Dir:        dir,
		BuildFlags: []string{"-tags=verif"},
		Overlay:    overlay,
		Env:        append(os.Environ(), "GOFLAGS=-mod=mod", "GOPROXY=off", "GOSUMDB=off", "GOTOOLCHAIN=local"),
	}
	pkgs, err := packages.Load(cfg, "./...")
	if err != nil {
		return nil, err
	}
	var errs []string
	packages.Visit(pkgs, nil, func(p *packages.Package) {
		for _, e := range p.Errors {
			if strings.HasPrefix(p.PkgPath, strings.TrimSuffix(modPrefix, "/")) {
				errs = append(errs, e.Error())
			}
		}
	})
	if len(errs) > 0 {
		return nil, fmt.Errorf("load errors: %s", strings.Join(errs, "; "))
	}
	prog, spkgs := ssautil.AllPackages(pkgs, ssa.GlobalDebug|ssa.InstantiateGenerics)
	prog.Build()
	p := &Program{Fset: prog.Fset, Pkgs: pkgs, SSA: prog, SPkgs: spkgs, Funcs: map[string]*ssa.Function{},
		AllFuncs: map[*ssa.Function]bool{}, Contracts: map[string]*Contract{}, srcLines: map[string][]string{},
		modCache: map[*ssa.Function]map[string]string{}, modBusy: map[*ssa.Function]bool{}, Impl: map[string][]*ssa.Function{},
		TypeSpecs: map[string]*TypeSpec{}, RepoDir: dir}
	for f := range ssautil.AllFunctions(prog) {
		p.AllFuncs[f] = true
		if inRepo(f) && f.Synthetic == "" {
			p.Funcs[fnName(f)] = f
		}
	}
	// interface implementations inside the repository
	for _, f := range p.Funcs {
		if f.Signature.Recv() == nil {
			continue
		}
		p.Impl[f.Name()] = append(p.Impl[f.Name()], f)
	}
	for k := range p.Impl {
		fs := p.Impl[k]
		sort.Slice(fs, func(i, j int) bool { return fnName(fs[i]) < fnName(fs[j]) })
	}
	return p, nil
}

// RepoPackages returns the packages of the module (not examples / test helpers).
func (p *Program) RepoPackages() []*packages.Package {
	var out []*packages.Package
	for _, pk := range p.Pkgs {
		if !strings.HasPrefix(pk.PkgPath, strings.TrimSuffix(modPrefix, "/")) {
			continue
		}
		out = append(out, pk)
	}
	sort.Slice(out, func(i, j int) bool { return out[i].PkgPath < out[j].PkgPath })
	return out
}

func (p *Program) posString(pos token.Pos) string {
	if !pos.IsValid() {
		return "?"
	}
	ps := p.Fset.Position(pos)
	f := ps.Filename
	if i := strings.Index(f, "/v8/"); i >= 0 {
		f = f[i+4:]
	}
	return fmt.Sprintf("%s:%d:%d", f, ps.Line, ps.Column)
}

// srcLine returns the trimmed text of the source line at pos.
func (p *Program) srcLine(pos token.Pos) string {
	if !pos.IsValid() {
		return ""
	}
	ps := p.Fset.Position(pos)
	p.srcMu.Lock()
	defer p.srcMu.Unlock()
	lines, ok := p.srcLines[ps.Filename]
	if !ok {
		b, err := os.ReadFile(ps.Filename)
		if err == nil {
			lines = strings.Split(string(b), "\n")
		}
		// overlay content is not on disk; fall back silently
		p.srcLines[ps.Filename] = lines
	}
	if ps.Line-1 < len(lines) && ps.Line >= 1 {
		return strings.Join(strings.Fields(lines[ps.Line-1]), " ")
	}
	return ""
}

// instrPos finds a usable position for an instruction (falls back to neighbours' positions).
func instrPos(in ssa.Instruction) token.Pos {
	if in.Pos().IsValid() {
		return in.Pos()
	}
	if v, ok := in.(ssa.Value); ok {
		if refs := v.Referrers(); refs != nil {
			for _, r := range *refs {
				if d, ok := r.(*ssa.DebugRef); ok && d.Pos().IsValid() {
					return d.Pos()
				}
			}
		}
	}
	b := in.Block()
	idx := -1
	for i, x := range b.Instrs {
		if x == in {
			idx = i
			break
		}
	}
	for d := 1; d < len(b.Instrs); d++ {
		for _, j := range []int{idx + d, idx - d} {
			if j >= 0 && j < len(b.Instrs) && b.Instrs[j].Pos().IsValid() {
				return b.Instrs[j].Pos()
			}
		}
	}
	return token.NoPos
}

// ---------- static callees ----------

// callees returns possible repo callees of a call (static callee or, for invoke, the repo implementations).
func (p *Program) callees(c *ssa.CallCommon) []*ssa.Function {
	if c.IsInvoke() {
		var out []*ssa.Function
		for _, f := range p.Impl[c.Method.Name()] {
			recv := f.Signature.Recv().Type()
			if types.Implements(recv, c.Value.Type().Underlying().(*types.Interface)) {
				out = append(out, f)
			}
		}
		return out
	}
	if f := c.StaticCallee(); f != nil {
		return []*ssa.Function{f}
	}
	return nil
}

// ---------- modification sets (which heaps a function may write) ----------

// pureExternalPkgs: external packages whose functions do not write memory reachable from their arguments
// (trusted; listed in evidence).
var pureExternalPkgs = map[string]bool{
	"fmt": true, "errors": true, "strings": true, "strconv": true, "time": true, "math": true, "unicode": true,
	"unicode/utf8": true, "unicode/utf16": true, "encoding/hex": true, "encoding/base64": true, "os": true,
	"log": true, "net/url": true, "path/filepath": true, "regexp": true, "math/big": true, "crypto/hmac": true,
	"crypto/sha1": true, "crypto/sha256": true, "crypto/sha512": true, "crypto/md5": true, "golang.org/x/crypto/md4": true,
	"crypto/subtle": true, "sync": true, "sync/atomic": true, "context": true, "crypto/des": true, "crypto/aes": true,
	"crypto/rc4": true, "os/user": true, "net": true, "hash": true, "sort": true,
	"golang.org/x/crypto/pbkdf2": true, "github.com/jcmturner/gofork/x/crypto/pbkdf2": true,
	"github.com/jcmturner/dnsutils/v2": true, "net/http/cookiejar": true, "github.com/hashicorp/go-uuid": true,
	"github.com/jcmturner/goidentity/v6": true, "github.com/jcmturner/rpc/v2/mstypes": true,
}

// mutatingExternals: externals (by short name prefix) that write through specific arguments: index list of args
// (0-based over call Args incl. receiver) whose reachable memory is havocked.
var mutatingExternals = map[string][]int{
	"bytes.Equal": {}, "bytes.Compare": {}, "bytes.HasPrefix": {}, "bytes.Contains": {}, "bytes.Index": {},
	"bytes.NewBuffer": {}, "bytes.NewReader": {}, "bytes.TrimRight": {}, "bytes.Repeat": {}, "bytes.ToLower": {},
	"(*bytes.Buffer).Bytes": {}, "(*bytes.Buffer).Len": {}, "(*bytes.Buffer).String": {},
	"(*bytes.Buffer).Write": {0}, "(*bytes.Buffer).WriteString": {0}, "(*bytes.Buffer).WriteByte": {0}, "(*bytes.Buffer).Read": {0, 1},
	"io.ReadFull": {0, 1}, "io.ReadAll": {0}, "io.Copy": {0, 1},
	"crypto/rand.Read": {0}, "crypto/rand.Int": {},
	"math/rand.Intn": {}, "math/rand.Int": {}, "math/rand.Seed": {},
	"encoding/binary.Read": {0, 2}, "encoding/binary.Write": {0},
	"encoding/binary.PutUvarint": {0},
}

func isPureExternal(f *ssa.Function) bool {
	if f.Pkg != nil {
		return pureExternalPkgs[f.Pkg.Pkg.Path()]
	}
	if f.Object() != nil && f.Object().Pkg() != nil {
		return pureExternalPkgs[f.Object().Pkg().Path()]
	}
	return false
}

// reachableHeaps: all heaps reachable by type from a value of type t (for havocking the effects of unknown externals).
func reachableHeaps(t types.Type, out map[string]string, seen map[string]bool) {
	t = types.Unalias(t)
	k := typeKey(t)
	if seen[k] {
		return
	}
	seen[k] = true
	defer func() {
		if r := recover(); r != nil {
			if _, ok := r.(unsupportedErr); !ok {
				panic(r)
			}
		}
	}()
	if isTimeType(t) {
		return
	}
	switch u := t.Underlying().(type) {
	case *types.Pointer:
		el := u.Elem()
		if a, ok := types.Unalias(el).Underlying().(*types.Array); ok {
			out[elemHeapName(a.Elem())] = ArraySort(SInt, ArraySort(BV(64), sortOf(a.Elem())))
			reachableHeaps(a.Elem(), out, seen)
			return
		}
		out[heapName(el)] = ArraySort(SInt, sortOf(el))
		reachableHeaps(el, out, seen)
	case *types.Slice:
		out[elemHeapName(u.Elem())] = ArraySort(SInt, ArraySort(BV(64), sortOf(u.Elem())))
		reachableHeaps(u.Elem(), out, seen)
	case *types.Array:
		reachableHeaps(u.Elem(), out, seen)
	case *types.Struct:
		for i := 0; i < u.NumFields(); i++ {
			reachableHeaps(u.Field(i).Type(), out, seen)
		}
	case *types.Map:
		mp, mv := mapHeapNames(u)
		out[mp] = ArraySort(SInt, ArraySort(sortOf(u.Key()), SBool))
		out[mv] = ArraySort(SInt, ArraySort(sortOf(u.Key()), sortOf(u.Elem())))
		reachableHeaps(u.Elem(), out, seen)
	case *types.Interface:
		// dynamic type unknown: nothing (boxes are immutable values in this model)
	}
}

// rootHeapOfAddr: which heap a store through address value v writes (by static type), or "" for cells.
func (p *Program) storeTargets(addr ssa.Value, out map[string]string) {
	defer func() {
		if r := recover(); r != nil {
			if _, ok := r.(unsupportedErr); !ok {
				panic(r)
			}
		}
	}()
	for {
		switch a := addr.(type) {
		case *ssa.FieldAddr:
			addr = a.X
			continue
		case *ssa.IndexAddr:
			xt := types.Unalias(a.X.Type()).Underlying()
			if sl, ok := xt.(*types.Slice); ok {
				out[elemHeapName(sl.Elem())] = ArraySort(SInt, ArraySort(BV(64), sortOf(sl.Elem())))
				return
			}
			// pointer to array
			addr = a.X
			continue
		case *ssa.Alloc:
			el := deref(a.Type())
			if arr, ok := types.Unalias(el).Underlying().(*types.Array); ok {
				out[elemHeapName(arr.Elem())] = ArraySort(SInt, ArraySort(BV(64), sortOf(arr.Elem())))
				return
			}
			if a.Heap {
				out[heapName(el)] = ArraySort(SInt, sortOf(el))
			}
			return
		case *ssa.Global:
			out["G."+mangle(a.Pkg.Pkg.Path()+"."+a.Name())] = sortOf(deref(a.Type()))
			return
		default:
			// pointer value from parameter / load / call / phi
			if pt, ok := types.Unalias(addr.Type()).Underlying().(*types.Pointer); ok {
				el := pt.Elem()
				if arr, ok := types.Unalias(el).Underlying().(*types.Array); ok {
					out[elemHeapName(arr.Elem())] = ArraySort(SInt, ArraySort(BV(64), sortOf(arr.Elem())))
					return
				}
				out[heapName(el)] = ArraySort(SInt, sortOf(el))
			}
			return
		}
	}
}

// ModSet computes (transitively, type-based) the heaps a function may write.
func (p *Program) ModSet(f *ssa.Function) map[string]string {
	p.mu.Lock()
	defer p.mu.Unlock()
	return p.modSet(f)
}

func (p *Program) modSet(f *ssa.Function) map[string]string {
	if m, ok := p.modCache[f]; ok {
		return m
	}
	if p.modBusy[f] {
		return map[string]string{}
	}
	p.modBusy[f] = true
	defer delete(p.modBusy, f)
	out := map[string]string{}
	if len(f.Blocks) == 0 {
		// external without body
		p.externalMods(f, nil, out)
		p.modCache[f] = out
		return out
	}
	if !inRepo(f) {
		// external with body: use declared table / purity instead of analysing library internals
		p.externalMods(f, nil, out)
		p.modCache[f] = out
		return out
	}
	for _, b := range f.Blocks {
		for _, in := range b.Instrs {
			switch x := in.(type) {
			case *ssa.Store:
				p.storeTargets(x.Addr, out)
			case *ssa.MapUpdate:
				if m, ok := types.Unalias(x.Map.Type()).Underlying().(*types.Map); ok {
					func() {
						defer func() { recover() }()
						mp, mv := mapHeapNames(m)
						out[mp] = ArraySort(SInt, ArraySort(sortOf(m.Key()), SBool))
						out[mv] = ArraySort(SInt, ArraySort(sortOf(m.Key()), sortOf(m.Elem())))
					}()
				}
			case ssa.CallInstruction:
				p.callMods0(x.Common(), out)
			}
		}
	}
	for _, an := range f.AnonFuncs {
		for k, v := range p.modSet(an) {
			out[k] = v
		}
	}
	p.modCache[f] = out
	return out
}

func (p *Program) callMods(c *ssa.CallCommon, out map[string]string) {
	p.mu.Lock()
	defer p.mu.Unlock()
	p.callMods0(c, out)
}

func (p *Program) callMods0(c *ssa.CallCommon, out map[string]string) {
	if b, ok := c.Value.(*ssa.Builtin); ok {
		switch b.Name() {
		case "copy", "append":
			if len(c.Args) > 0 {
				if sl, ok := types.Unalias(c.Args[0].Type()).Underlying().(*types.Slice); ok {
					func() {
						defer func() { recover() }()
						out[elemHeapName(sl.Elem())] = ArraySort(SInt, ArraySort(BV(64), sortOf(sl.Elem())))
					}()
				}
			}
		case "delete", "clear":
			if len(c.Args) > 0 {
				if m, ok := types.Unalias(c.Args[0].Type()).Underlying().(*types.Map); ok {
					func() {
						defer func() { recover() }()
						// delete / clear change which keys are present, not the stored values
						mp, _ := mapHeapNames(m)
						out[mp] = ArraySort(SInt, ArraySort(sortOf(m.Key()), SBool))
					}()
				}
			}
		}
		return
	}
	cs := p.callees(c)
	for _, f := range cs {
		if fnName(f) == "time.Now" || fnName(f) == "time.Since" {
			out["GH.clock"] = STime
		}
	}
	if len(cs) == 0 {
		// dynamic call of unknown function value / external interface method: havoc what is reachable from args
		if c.IsInvoke() {
			p.externalModsArgs(c.Args, nil, out)
			// the receiver's dynamic value may be a pointer to anything; nothing typed to havoc
		} else {
			p.externalModsArgs(c.Args, nil, out)
		}
		return
	}
	for _, f := range cs {
		if ct := p.Contracts[fnName(f)]; ct != nil && !ct.HasFrame() {
			for _, g := range ct.Havocs {
				if g == "clock" {
					out["GH.clock"] = STime
				}
				if gv := p.Ghosts[g]; gv != nil {
					out["GH.u."+g] = gv.Sort
				}
			}
			for _, gs := range ct.Sets {
				if gv := p.Ghosts[gs.Name]; gv != nil {
					out["GH.u."+gs.Name] = gv.Sort
				}
			}
		}
		if ct := p.Contracts[fnName(f)]; ct != nil && ct.HasFrame() {
			// a contract with a frame: only what it names; resolved at call sites. Type-level approximation here:
			for k, v := range ct.modHeapsApprox(p, f) {
				out[k] = v
			}
			continue
		}
		if inRepo(f) {
			for k, v := range p.modSet(f) {
				out[k] = v
			}
		} else {
			p.externalMods(f, c.Args, out)
		}
	}
	if c.IsInvoke() {
		// implementations outside the repository may exist as well (hash.Hash, net.Conn ...)
		if !p.ifaceAllInRepo(c) {
			p.externalModsArgs(c.Args, nil, out)
		}
	}
}

func (p *Program) ifaceAllInRepo(c *ssa.CallCommon) bool {
	if n, ok := types.Unalias(c.Value.Type()).(*types.Named); ok && n.Obj().Pkg() != nil {
		return strings.HasPrefix(n.Obj().Pkg().Path(), strings.TrimSuffix(modPrefix, "/"))
	}
	return false
}

func (p *Program) externalMods(f *ssa.Function, args []ssa.Value, out map[string]string) {
	name := fnName(f)
	if idxs, ok := mutatingExternals[name]; ok {
		if args == nil {
			// use parameter types
			var ts []types.Type
			if f.Signature.Recv() != nil {
				ts = append(ts, f.Signature.Recv().Type())
			}
			for i := 0; i < f.Signature.Params().Len(); i++ {
				ts = append(ts, f.Signature.Params().At(i).Type())
			}
			for _, i := range idxs {
				if i < len(ts) {
					reachableHeaps(ts[i], out, map[string]bool{})
				}
			}
			return
		}
		p.externalModsArgs(args, idxs, out)
		return
	}
	if isPureExternal(f) {
		return
	}
	if args == nil {
		var ts []types.Type
		if f.Signature.Recv() != nil {
			ts = append(ts, f.Signature.Recv().Type())
		}
		for i := 0; i < f.Signature.Params().Len(); i++ {
			ts = append(ts, f.Signature.Params().At(i).Type())
		}
		for _, t := range ts {
			reachableHeaps(t, out, map[string]bool{})
		}
		return
	}
	p.externalModsArgs(args, nil, out)
}

func (p *Program) externalModsArgs(args []ssa.Value, idxs []int, out map[string]string) {
	use := func(v ssa.Value) {
		t := v.Type()
		// interface-typed argument built from a pointer: look through MakeInterface
		if mi, ok := v.(*ssa.MakeInterface); ok {
			t = mi.X.Type()
		}
		reachableHeaps(t, out, map[string]bool{})
	}
	if idxs == nil {
		for _, a := range args {
			use(a)
		}
		return
	}
	for _, i := range idxs {
		if i < len(args) {
			use(args[i])
		}
	}
}

// funcDecl finds the AST declaration of a function (for loop ordinals and source text).
func (p *Program) funcSyntax(f *ssa.Function) ast.Node { return f.Syntax() }

// symbolID resolves tid.<mangled type> / fid.<mangled function> to the engine's identifiers.
func (p *Program) symbolID(tok string) int64 {
	p.mu.Lock()
	defer p.mu.Unlock()
	if p.symIDs == nil {
		p.symIDs = map[string]int64{}
		for _, pk := range p.SSA.AllPackages() {
			for _, m := range pk.Members {
				switch x := m.(type) {
				case *ssa.Type:
					t := x.Type()
					p.symIDs["tid."+mangle(typeKey(t))] = typeID(t)
					p.symIDs["tid.ptr."+mangle(typeKey(t))] = typeID(types.NewPointer(t))
				case *ssa.Function:
					p.symIDs["fid."+mangle(fnName(x))] = fnID(x)
				}
			}
		}
	}
	if v, ok := p.symIDs[tok]; ok {
		return v
	}
	// unknown symbol: a distinct, stable, otherwise unused identifier
	h := sha1.Sum([]byte(tok))
	return (int64(h[0])<<24|int64(h[1])<<16|int64(h[2])<<8|int64(h[3]))&0x3fffffff + 0x40000000
}

func fnID(f *ssa.Function) int64 { return fnIDByName(fnName(f)) }

func fnIDByName(name string) int64 {
	h := sha1.Sum([]byte("fn:" + name))
	return (int64(h[0])<<24|int64(h[1])<<16|int64(h[2])<<8|int64(h[3]))&0x3fffffff + 1
}
