package main

// Contracts: Gobra-style //@ lines in comment-only files behind the build tag `verif`
// (/repo/v8/<pkg>/zz_contracts_verif.go) and trusted model files (/verif/models/*.model).
// See DESIGN.md Appendix F for the grammar.

import (
	"go/types"
	"fmt"
	"go/scanner"
	"go/token"
	"os"
	"path/filepath"
	"sort"
	"strconv"
	"strings"
)

type Clause struct {
	Text string
	E    *CExpr
	Line string // file:line
}

type LoopSpec struct {
	Invariants []Clause
	Decreases  []Clause
	Unroll     int
}

type Contract struct {
	Fn        string
	Params    []string // receiver first
	Results   []string
	Requires  []Clause
	Ensures   []Clause
	Modifies  []Clause
	HasMod    bool // a modifies clause (possibly "nothing") was given
	Loops     map[int]*LoopSpec
	Decreases []Clause
	Trusted   string
	Pure      bool
	MayPanic  bool
	Inline    bool
	NoInline  bool
	Reveal    []string
	File      string
	Model     bool // from /verif/models (assumption)
	Labels    []Clause // secret/public/declassify (C20)
	Sets      []GhostSet // ghost assignments made at return: sets name := expr
	Acquires  []Clause   // declared locks the function takes (and releases) itself: acquires c.mux
	Havocs    []string   // ghost variables changed by the function through its callees: havocs g1, g2
	Raw       map[string][]string
}

func (c *Contract) HasFrame() bool { return c != nil && (c.HasMod || c.Pure) }

// GhostSet is a ghost assignment "sets name := expr" performed when the function returns; callers see the new
// value of the ghost variable, the function itself has nothing to prove about it.
type GhostSet struct {
	Name string
	Cl   Clause
}

// GhostVar is a program-wide ghost variable declared with "//@ ghost name type".
type GhostVar struct {
	Name, Sort string
	T    types.Type
}

type Define struct {
	Name   string
	Params []string
	Text   string
	E      *CExpr
	File   string
}

type AssumedObl struct {
	Prefix, Reason, File string
}

type TypeSpec struct {
	Name   string
	Fields map[string]map[string]string // field -> attribute -> value
	Attrs  map[string]string
}

var clauseKeywords = map[string]bool{"requires": true, "ensures": true, "modifies": true, "loop": true, "decreases": true, "sets": true, "acquires": true, "havocs": true, "guards": true, "lockinv": true,
	"trusted": true, "pure": true, "may_panic": true, "inline": true, "noinline": true, "reveal": true, "field": true,
	"secret": true, "public": true, "declassify": true, "level": true, "sink": true, "source": true, "trusted_frame": true, "trusted_ensures": true, "seq_extensionality": true, "atomic": true, "rely": true}

func (p *Program) LoadContracts(files []string, model bool) error {
	for _, f := range files {
		b, err := os.ReadFile(f)
		if err != nil {
			return err
		}
		if err := p.parseContractFile(f, string(b), model); err != nil {
			return err
		}
	}
	return nil
}

func (p *Program) ContractFiles() []string {
	var out []string
	filepath.Walk(p.RepoDir, func(path string, info os.FileInfo, err error) error {
		if err == nil && !info.IsDir() && info.Name() == "zz_contracts_verif.go" {
			out = append(out, path)
		}
		return nil
	})
	sort.Strings(out)
	return out
}

func (p *Program) parseContractFile(file, text string, model bool) error {
	var cur *Contract
	var curT *TypeSpec
	var lastClause *Clause
	var lastDefine *Define
	lines := strings.Split(text, "\n")
	for ln, raw := range lines {
		l := strings.TrimSpace(raw)
		if !strings.HasPrefix(l, "//@") {
			continue
		}
		l = strings.TrimSpace(l[3:])
		if l == "" || strings.HasPrefix(l, "//") {
			continue
		}
		// strip trailing comment
		if i := strings.Index(l, " // "); i >= 0 {
			l = strings.TrimSpace(l[:i])
		}
		loc := fmt.Sprintf("%s:%d", filepath.Base(filepath.Dir(file))+"/"+filepath.Base(file), ln+1)
		word := l
		rest := ""
		if i := strings.IndexAny(l, " \t"); i >= 0 {
			word, rest = l[:i], strings.TrimSpace(l[i+1:])
		}
		switch {
		case word == "func":
			lastDefine = nil
			c, err := parseFuncHeader(rest)
			if err != nil {
				return fmt.Errorf("%s: %v", loc, err)
			}
			c.File = loc
			c.Model = model
			if old := p.Contracts[c.Fn]; old != nil {
				return fmt.Errorf("%s: duplicate contract for %s (also %s)", loc, c.Fn, old.File)
			}
			p.Contracts[c.Fn] = c
			cur, curT, lastClause = c, nil, nil
		case word == "define":
			// define name(p1, p2) := expr   (pure contract-level function, expanded where used)
			parts := strings.SplitN(rest, ":=", 2)
			if len(parts) != 2 {
				return fmt.Errorf("%s: define needs ':='", loc)
			}
			hdr, err := parseFuncHeader(strings.TrimSpace(parts[0]))
			if err != nil {
				return fmt.Errorf("%s: %v", loc, err)
			}
			d := &Define{Name: hdr.Fn, Params: hdr.Params, Text: strings.TrimSpace(parts[1]), File: loc}
			if p.Defines == nil {
				p.Defines = map[string]*Define{}
			}
			p.Defines[d.Name] = d
			cur, curT = nil, nil
			lastClause = &Clause{Text: d.Text}
			lastDefine = d
			d.E, _ = ParseCExpr(d.Text)
		case word == "ghost":
			// ghost name type   (bool, int, string, error, Seq, Ref)
			fs := strings.Fields(rest)
			if len(fs) != 2 {
				return fmt.Errorf("%s: ghost needs 'name type'", loc)
			}
			gv := &GhostVar{Name: fs[0]}
			switch fs[1] {
			case "bool":
				gv.Sort, gv.T = SBool, types.Typ[types.Bool]
			case "int":
				gv.Sort, gv.T = BV(64), types.Typ[types.Int]
			case "int32":
				gv.Sort, gv.T = BV(32), types.Typ[types.Int32]
			case "string":
				gv.Sort, gv.T = SStr, types.Typ[types.String]
			case "error":
				gv.Sort, gv.T = SIface, types.Universe.Lookup("error").Type()
			case "Seq":
				gv.Sort = "BSeq"
			case "Ref":
				gv.Sort = SInt
			case "Time":
				gv.Sort, gv.T = STime, timeType(p)
			default:
				return fmt.Errorf("%s: ghost type %s not supported", loc, fs[1])
			}
			if p.Ghosts == nil {
				p.Ghosts = map[string]*GhostVar{}
			}
			p.Ghosts[gv.Name] = gv
			cur, curT, lastClause = nil, nil, nil
		case word == "assume_obligation":
			// assume_obligation <obligation name prefix> :: reason
			parts := strings.SplitN(rest, "::", 2)
			if len(parts) != 2 {
				return fmt.Errorf("%s: assume_obligation needs ':: reason'", loc)
			}
			p.AssumedObls = append(p.AssumedObls, AssumedObl{Prefix: strings.TrimSpace(parts[0]), Reason: strings.TrimSpace(parts[1]), File: loc})
			cur, curT, lastClause = nil, nil, nil
		case word == "type":
			ts := &TypeSpec{Name: rest, Fields: map[string]map[string]string{}, Attrs: map[string]string{}}
			p.TypeSpecs[rest] = ts
			cur, curT, lastClause = nil, ts, nil
		case !clauseKeywords[word]:
			// continuation of the previous clause
			if lastClause == nil {
				return fmt.Errorf("%s: unexpected line %q", loc, l)
			}
			lastClause.Text += " " + l
			e, err := ParseCExpr(lastClause.Text)
			if err != nil {
				// may become valid after more continuation lines; error is reported at the end
				lastClause.E = nil
			} else {
				lastClause.E = e
			}
			if lastDefine != nil && cur == nil && curT == nil {
				lastDefine.Text = lastClause.Text
				lastDefine.E = lastClause.E
			}
		case curT != nil:
			switch word {
			case "field":
				fs := strings.Fields(rest)
				if len(fs) < 2 {
					return fmt.Errorf("%s: bad field clause", loc)
				}
				m := curT.Fields[fs[0]]
				if m == nil {
					m = map[string]string{}
					curT.Fields[fs[0]] = m
				}
				v := ""
				if len(fs) > 2 {
					v = strings.Join(fs[2:], " ")
				}
				m[fs[1]] = v
			default:
				curT.Attrs[word] = rest
			}
		case cur != nil:
			mk := func(text string) (Clause, error) {
				e, err := ParseCExpr(text)
				cl := Clause{Text: text, E: e, Line: loc}
				return cl, err
			}
			switch word {
			case "requires", "ensures":
				cl, _ := mk(rest)
				if word == "requires" {
					cur.Requires = append(cur.Requires, cl)
					lastClause = &cur.Requires[len(cur.Requires)-1]
				} else {
					cur.Ensures = append(cur.Ensures, cl)
					lastClause = &cur.Ensures[len(cur.Ensures)-1]
				}
			case "havocs":
				for _, g := range strings.Split(rest, ",") {
					if g = strings.TrimSpace(g); g != "" {
						cur.Havocs = append(cur.Havocs, g)
					}
				}
				lastClause = nil
			case "acquires":
				cl, err := mk(rest)
				if err != nil {
					return fmt.Errorf("%s: %v", loc, err)
				}
				cur.Acquires = append(cur.Acquires, cl)
				lastClause = nil
			case "sets":
				parts := strings.SplitN(rest, ":=", 2)
				if len(parts) != 2 {
					return fmt.Errorf("%s: sets needs ':='", loc)
				}
				cl, _ := mk(strings.TrimSpace(parts[1]))
				cur.Sets = append(cur.Sets, GhostSet{Name: strings.TrimSpace(parts[0]), Cl: cl})
				lastClause = &cur.Sets[len(cur.Sets)-1].Cl
			case "modifies":
				cur.HasMod = true
				lastClause = nil
				if rest == "nothing" || rest == "" {
					break
				}
				for _, part := range splitTopLevel(rest, ',') {
					cl, err := mk(strings.TrimSpace(part))
					if err != nil {
						return fmt.Errorf("%s: %v", loc, err)
					}
					cur.Modifies = append(cur.Modifies, cl)
				}
			case "decreases":
				cl, err := mk(rest)
				if err != nil {
					return fmt.Errorf("%s: %v", loc, err)
				}
				cur.Decreases = append(cur.Decreases, cl)
				lastClause = nil
			case "loop":
				fs := strings.SplitN(rest, " ", 3)
				if len(fs) < 3 {
					return fmt.Errorf("%s: bad loop clause", loc)
				}
				n, err := strconv.Atoi(fs[0])
				if err != nil {
					return fmt.Errorf("%s: bad loop ordinal", loc)
				}
				if cur.Loops == nil {
					cur.Loops = map[int]*LoopSpec{}
				}
				ls := cur.Loops[n]
				if ls == nil {
					ls = &LoopSpec{}
					cur.Loops[n] = ls
				}
				switch fs[1] {
				case "invariant":
					cl, _ := mk(fs[2])
					ls.Invariants = append(ls.Invariants, cl)
					lastClause = &ls.Invariants[len(ls.Invariants)-1]
				case "decreases":
					cl, err := mk(fs[2])
					if err != nil {
						return fmt.Errorf("%s: %v", loc, err)
					}
					ls.Decreases = append(ls.Decreases, cl)
					lastClause = nil
				case "unroll":
					k, err := strconv.Atoi(strings.TrimSpace(fs[2]))
					if err != nil {
						return fmt.Errorf("%s: bad unroll count", loc)
					}
					ls.Unroll = k
					lastClause = nil
				default:
					return fmt.Errorf("%s: unknown loop clause %q", loc, fs[1])
				}
			case "trusted":
				cur.Trusted = rest
				if cur.Trusted == "" {
					cur.Trusted = "trusted"
				}
				lastClause = nil
			case "pure":
				cur.Pure = true
				lastClause = nil
			case "may_panic":
				cur.MayPanic = true
				lastClause = nil
			case "inline":
				cur.Inline = true
				lastClause = nil
			case "noinline":
				cur.NoInline = true
				lastClause = nil
			case "reveal":
				for _, s := range strings.Split(rest, ",") {
					cur.Reveal = append(cur.Reveal, strings.TrimSpace(s))
				}
				lastClause = nil
			default:
				if cur.Raw == nil {
					cur.Raw = map[string][]string{}
				}
				cur.Raw[word] = append(cur.Raw[word], rest)
				lastClause = nil
			}
		default:
			return fmt.Errorf("%s: clause outside a func/type block: %q", loc, l)
		}
	}
	for _, d := range p.Defines {
		if d.E == nil {
			_, err := ParseCExpr(d.Text)
			return fmt.Errorf("%s: cannot parse definition of %s: %v", d.File, d.Name, err)
		}
	}
	// all clauses must have parsed
	for _, c := range p.Contracts {
		check := func(cls []Clause) error {
			for _, cl := range cls {
				if cl.E == nil {
					_, err := ParseCExpr(cl.Text)
					return fmt.Errorf("%s: cannot parse %q: %v", cl.Line, cl.Text, err)
				}
			}
			return nil
		}
		if err := check(c.Requires); err != nil {
			return err
		}
		if err := check(c.Ensures); err != nil {
			return err
		}
		for _, ls := range c.Loops {
			if err := check(ls.Invariants); err != nil {
				return err
			}
		}
	}
	return nil
}

func splitTopLevel(s string, sep byte) []string {
	var out []string
	depth := 0
	start := 0
	for i := 0; i < len(s); i++ {
		switch s[i] {
		case '(', '[', '{':
			depth++
		case ')', ']', '}':
			depth--
		default:
			if s[i] == sep && depth == 0 {
				out = append(out, s[start:i])
				start = i + 1
			}
		}
	}
	out = append(out, s[start:])
	return out
}

// header: NAME(p1, p2) (r1, r2)   where NAME may itself contain parentheses: (*pkg.T).M
func parseFuncHeader(s string) (*Contract, error) {
	s = strings.TrimSpace(s)
	// the parameter list is the first '(' that follows an identifier character at depth 0
	depth := 0
	pstart := -1
	for i := 0; i < len(s); i++ {
		switch s[i] {
		case '(':
			if depth == 0 && i > 0 && (isIdentChar(s[i-1])) {
				pstart = i
			}
			depth++
		case ')':
			depth--
		}
		if pstart >= 0 {
			break
		}
	}
	if pstart < 0 {
		return nil, fmt.Errorf("bad func header %q", s)
	}
	name := strings.TrimSpace(s[:pstart])
	rest := s[pstart:]
	end := strings.Index(rest, ")")
	if end < 0 {
		return nil, fmt.Errorf("bad func header %q", s)
	}
	c := &Contract{Fn: name}
	for _, p := range strings.Split(rest[1:end], ",") {
		if p = strings.TrimSpace(p); p != "" {
			c.Params = append(c.Params, p)
		}
	}
	rest = strings.TrimSpace(rest[end+1:])
	if rest != "" {
		if !strings.HasPrefix(rest, "(") || !strings.HasSuffix(rest, ")") {
			return nil, fmt.Errorf("bad result list in %q", s)
		}
		for _, p := range strings.Split(rest[1:len(rest)-1], ",") {
			if p = strings.TrimSpace(p); p != "" {
				c.Results = append(c.Results, p)
			}
		}
	}
	return c, nil
}

func isIdentChar(c byte) bool {
	return c == '_' || c == '$' || (c >= 'a' && c <= 'z') || (c >= 'A' && c <= 'Z') || (c >= '0' && c <= '9')
}

// ---------- contract expressions ----------

type CVar struct{ Name, Type string }

type CExpr struct {
	Kind string // ident int str char unary binary call sel index slice forall exists old
	Op   string
	Name string
	X, Y, Z *CExpr
	Args []*CExpr
	Vars []CVar
}

func (e *CExpr) String() string {
	if e == nil {
		return "<nil>"
	}
	switch e.Kind {
	case "ident", "int", "str", "char":
		return e.Name
	case "unary":
		return e.Op + e.X.String()
	case "binary":
		return "(" + e.X.String() + " " + e.Op + " " + e.Y.String() + ")"
	case "call":
		var as []string
		for _, a := range e.Args {
			as = append(as, a.String())
		}
		return e.X.String() + "(" + strings.Join(as, ", ") + ")"
	case "sel":
		return e.X.String() + "." + e.Name
	case "index":
		return e.X.String() + "[" + e.Y.String() + "]"
	case "slice":
		return e.X.String() + "[" + e.Y.String() + ":" + e.Z.String() + "]"
	case "forall", "exists":
		var vs []string
		for _, v := range e.Vars {
			vs = append(vs, v.Name+" "+v.Type)
		}
		return "(" + e.Kind + " " + strings.Join(vs, ", ") + " :: " + e.X.String() + ")"
	case "old":
		return "old(" + e.X.String() + ")"
	}
	return "?"
}

type ctok struct {
	tok token.Token
	lit string
}

type cparser struct {
	toks []ctok
	pos  int
}

func ParseCExpr(text string) (*CExpr, error) {
	t := strings.ReplaceAll(text, "<==>", " ⇔ ")
	t = strings.ReplaceAll(t, "==>", " ⇒ ")
	t = strings.ReplaceAll(t, "::", " ∷ ")
	var s scanner.Scanner
	fset := token.NewFileSet()
	file := fset.AddFile("", fset.Base(), len(t))
	s.Init(file, []byte(t), func(pos token.Position, msg string) {}, 0)
	p := &cparser{}
	for {
		_, tok, lit := s.Scan()
		if tok == token.EOF {
			break
		}
		if tok == token.SEMICOLON && lit == "\n" {
			continue
		}
		p.toks = append(p.toks, ctok{tok, lit})
	}
	var e *CExpr
	var err error
	func() {
		defer func() {
			if r := recover(); r != nil {
				if s, ok := r.(string); ok {
					err = fmt.Errorf("%s", s)
					return
				}
				panic(r)
			}
		}()
		e = p.parseExpr()
		if p.pos < len(p.toks) {
			panic(fmt.Sprintf("unexpected token %q", p.cur().lit+p.cur().tok.String()))
		}
	}()
	return e, err
}

func (p *cparser) cur() ctok {
	if p.pos < len(p.toks) {
		return p.toks[p.pos]
	}
	return ctok{token.EOF, ""}
}
func (p *cparser) next() ctok { t := p.cur(); p.pos++; return t }
func (p *cparser) isIllegal(l string) bool {
	c := p.cur()
	return c.tok == token.ILLEGAL && c.lit == l
}
func (p *cparser) expect(t token.Token) ctok {
	c := p.next()
	if c.tok != t {
		panic(fmt.Sprintf("expected %s, got %s %q", t, c.tok, c.lit))
	}
	return c
}

func (p *cparser) parseExpr() *CExpr {
	c := p.cur()
	if c.tok == token.IDENT && (c.lit == "forall" || c.lit == "exists") {
		// quantifier: forall x T, y T :: body
		if p.pos+1 < len(p.toks) && p.toks[p.pos+1].tok == token.IDENT {
			p.next()
			q := &CExpr{Kind: c.lit}
			for {
				n := p.expect(token.IDENT)
				ty := p.expect(token.IDENT)
				tyName := ty.lit
				if p.cur().tok == token.PERIOD {
					// qualified type name pkg.T
					p.next()
					tyName += "." + p.expect(token.IDENT).lit
				}
				q.Vars = append(q.Vars, CVar{n.lit, tyName})
				if p.cur().tok == token.COMMA {
					p.next()
					continue
				}
				break
			}
			if !p.isIllegal("∷") {
				panic("expected :: in quantifier")
			}
			p.next()
			q.X = p.parseExpr()
			return q
		}
	}
	return p.parseIff()
}

func (p *cparser) parseIff() *CExpr {
	x := p.parseImp()
	for p.isIllegal("⇔") {
		p.next()
		y := p.parseImp()
		x = &CExpr{Kind: "binary", Op: "<==>", X: x, Y: y}
	}
	return x
}

func (p *cparser) parseImp() *CExpr {
	x := p.parseBin(1)
	if p.isIllegal("⇒") {
		p.next()
		var y *CExpr
		c := p.cur()
		if c.tok == token.IDENT && (c.lit == "forall" || c.lit == "exists") {
			y = p.parseExpr()
		} else {
			y = p.parseImp()
		}
		return &CExpr{Kind: "binary", Op: "==>", X: x, Y: y}
	}
	return x
}

func (p *cparser) parseBin(prec int) *CExpr {
	x := p.parseUnary()
	for {
		c := p.cur()
		op := c.tok
		pr := op.Precedence()
		if op == token.IDENT && c.lit == "in" {
			pr = 3
		}
		if pr < prec || pr == 0 {
			return x
		}
		p.next()
		// quantifier on the right of && / ||
		var y *CExpr
		n := p.cur()
		if n.tok == token.IDENT && (n.lit == "forall" || n.lit == "exists") && p.pos+1 < len(p.toks) && p.toks[p.pos+1].tok == token.IDENT {
			y = p.parseExpr()
		} else {
			y = p.parseBin(pr + 1)
		}
		ops := op.String()
		if op == token.IDENT {
			ops = "in"
		}
		x = &CExpr{Kind: "binary", Op: ops, X: x, Y: y}
	}
}

func (p *cparser) parseUnary() *CExpr {
	c := p.cur()
	switch c.tok {
	case token.NOT, token.SUB, token.XOR, token.MUL, token.AND, token.ADD:
		p.next()
		x := p.parseUnary()
		return &CExpr{Kind: "unary", Op: c.tok.String(), X: x}
	}
	return p.parsePostfix(p.parsePrimary())
}

func (p *cparser) parsePrimary() *CExpr {
	c := p.next()
	switch c.tok {
	case token.IDENT:
		return &CExpr{Kind: "ident", Name: c.lit}
	case token.INT:
		return &CExpr{Kind: "int", Name: c.lit}
	case token.STRING:
		return &CExpr{Kind: "str", Name: c.lit}
	case token.CHAR:
		return &CExpr{Kind: "char", Name: c.lit}
	case token.LPAREN:
		e := p.parseExpr()
		p.expect(token.RPAREN)
		return e
	case token.FUNC, token.TYPE, token.MAP, token.RANGE:
		return &CExpr{Kind: "ident", Name: c.lit}
	}
	panic(fmt.Sprintf("unexpected token %s %q", c.tok, c.lit))
}

func (p *cparser) parsePostfix(x *CExpr) *CExpr {
	for {
		c := p.cur()
		switch c.tok {
		case token.PERIOD:
			p.next()
			n := p.next()
			if n.tok != token.IDENT && !n.tok.IsKeyword() {
				panic("expected selector name")
			}
			x = &CExpr{Kind: "sel", X: x, Name: n.lit}
		case token.LBRACK:
			p.next()
			var lo, hi *CExpr
			if p.cur().tok != token.COLON {
				lo = p.parseExpr()
			}
			if p.cur().tok == token.COLON {
				p.next()
				if p.cur().tok != token.RBRACK {
					hi = p.parseExpr()
				}
				p.expect(token.RBRACK)
				x = &CExpr{Kind: "slice", X: x, Y: lo, Z: hi}
			} else {
				p.expect(token.RBRACK)
				x = &CExpr{Kind: "index", X: x, Y: lo}
			}
		case token.LPAREN:
			p.next()
			call := &CExpr{Kind: "call", X: x}
			for p.cur().tok != token.RPAREN {
				call.Args = append(call.Args, p.parseExpr())
				if p.cur().tok == token.COMMA {
					p.next()
				} else {
					break
				}
			}
			p.expect(token.RPAREN)
			if x.Kind == "ident" && x.Name == "old" && len(call.Args) == 1 {
				x = &CExpr{Kind: "old", X: call.Args[0]}
			} else {
				x = call
			}
		case token.ILLEGAL:
			if c.lit == "#" {
				// now#k
				p.next()
				k := p.expect(token.INT)
				x = &CExpr{Kind: "ident", Name: x.Name + "#" + k.lit}
				continue
			}
			return x
		default:
			return x
		}
	}
}

// modHeapsApprox: a type-level over-approximation of what a contract's modifies clause can touch,
// used only inside transitive ModSet computation (loop havoc); call sites use the precise clause.
func (c *Contract) modHeapsApprox(p *Program, f interface{}) map[string]string {
	out := map[string]string{}
	for _, gs := range c.Sets {
		if gv := p.Ghosts[gs.Name]; gv != nil {
			out["GH.u."+gs.Name] = gv.Sort
		}
	}
	for _, g := range c.Havocs {
		if g == "clock" {
			out["GH.clock"] = STime
		}
		if gv := p.Ghosts[g]; gv != nil {
			out["GH.u."+g] = gv.Sort
		}
	}
	if c.Pure || len(c.Modifies) == 0 {
		return out
	}
	fn := p.Funcs[c.Fn]
	if fn == nil {
		return out
	}
	// precise when every clause is a plain path (*p, p.f.g, elems(p.f), entries(p.m)) from a parameter
	ptypes := map[string]types.Type{}
	for i, prm := range fn.Params {
		if i < len(c.Params) {
			ptypes[c.Params[i]] = prm.Type()
		}
	}
	precise := true
	pout := map[string]string{}
	for k, v := range out {
		pout[k] = v
	}
	for _, m := range c.Modifies {
		if !lvHeaps(m.E, ptypes, pout) {
			precise = false
			break
		}
	}
	if precise {
		return pout
	}
	// conservative: everything reachable by type from the parameters named in the clauses
	names := map[string]bool{}
	for _, m := range c.Modifies {
		root := m.E
		for root != nil && root.Kind != "ident" {
			if root.Kind == "unary" || root.Kind == "sel" || root.Kind == "index" || root.Kind == "slice" || root.Kind == "call" {
				if root.Kind == "call" && len(root.Args) > 0 {
					root = root.Args[0]
				} else {
					root = root.X
				}
			} else {
				break
			}
		}
		if root != nil {
			names[root.Name] = true
		}
	}
	for i, prm := range fn.Params {
		if i < len(c.Params) && names[c.Params[i]] {
			reachableHeaps(prm.Type(), out, map[string]bool{})
		}
	}
	if names["heap"] {
		for k, v := range p.ModSet0(fn) {
			out[k] = v
		}
	}
	return out
}

// ModSet0 is the body-derived modification set ignoring the function's own contract.
func (p *Program) ModSet0(f interface{}) map[string]string { return map[string]string{} }

// lvHeaps adds the heaps an lvalue clause of a modifies list can touch; false when the clause is not a plain path.
func lvHeaps(x *CExpr, ptypes map[string]types.Type, out map[string]string) (ok bool) {
	defer func() {
		if r := recover(); r != nil {
			ok = false
		}
	}()
	if x.Kind == "call" && len(x.Args) == 1 {
		t, _, ok := lvType(x.Args[0], ptypes)
		if !ok {
			return false
		}
		switch x.Name {
		case "elems":
			if sl, isSl := types.Unalias(t).Underlying().(*types.Slice); isSl {
				n, s := elemHeap(sl.Elem())
				out[n] = s
				return true
			}
		case "entries":
			if mt, isM := types.Unalias(t).Underlying().(*types.Map); isM {
				mp, mv := mapHeapNames(mt)
				out[mp] = ArraySort(SInt, ArraySort(sortOf(mt.Key()), SBool))
				out[mv] = ArraySort(SInt, ArraySort(sortOf(mt.Key()), sortOf(mt.Elem())))
				return true
			}
		}
		return false
	}
	_, owner, ok2 := lvType(x, ptypes)
	if !ok2 || owner == "" {
		return false
	}
	parts := strings.SplitN(owner, "|", 2)
	out[parts[0]] = parts[1]
	return true
}

// lvType: type of a path expression and the heap ("name|sort") holding it ("" for a parameter itself).
func lvType(x *CExpr, ptypes map[string]types.Type) (types.Type, string, bool) {
	switch x.Kind {
	case "ident":
		t, ok := ptypes[x.Name]
		return t, "", ok
	case "unary":
		if x.Op != "*" {
			return nil, "", false
		}
		t, _, ok := lvType(x.X, ptypes)
		if !ok {
			return nil, "", false
		}
		pt, isP := types.Unalias(t).Underlying().(*types.Pointer)
		if !isP {
			return nil, "", false
		}
		n, s := objHeap(pt.Elem())
		return pt.Elem(), n + "|" + s, true
	case "sel":
		t, owner, ok := lvType(x.X, ptypes)
		if !ok {
			return nil, "", false
		}
		if pt, isP := types.Unalias(t).Underlying().(*types.Pointer); isP {
			t = pt.Elem()
			n, s := objHeap(t)
			owner = n + "|" + s
		}
		obj, idx, _ := types.LookupFieldOrMethod(t, true, nil, x.Name)
		if obj == nil {
			// unexported field: look it up structurally
			st, isS := types.Unalias(t).Underlying().(*types.Struct)
			if !isS {
				return nil, "", false
			}
			for i := 0; i < st.NumFields(); i++ {
				if st.Field(i).Name() == x.Name {
					return st.Field(i).Type(), owner, true
				}
			}
			return nil, "", false
		}
		fv, isV := obj.(*types.Var)
		if !isV {
			return nil, "", false
		}
		// promoted through an embedded pointer: not a plain path
		cur := t
		for _, i := range idx[:len(idx)-1] {
			st := types.Unalias(cur).Underlying().(*types.Struct)
			cur = st.Field(i).Type()
			if _, isP := types.Unalias(cur).Underlying().(*types.Pointer); isP {
				return nil, "", false
			}
		}
		return fv.Type(), owner, true
	case "index":
		t, _, ok := lvType(x.X, ptypes)
		if !ok {
			return nil, "", false
		}
		if sl, isSl := types.Unalias(t).Underlying().(*types.Slice); isSl {
			n, s := elemHeap(sl.Elem())
			return sl.Elem(), n + "|" + s, true
		}
		return nil, "", false
	}
	return nil, "", false
}
