package main

// Symbolic executor over go/ssa: one pass over the loop-cut CFG in reverse post-order with state
// merging at joins; loops are cut at their headers (invariants checked on entry and at the merged
// latch, assumed for an arbitrary iteration).

import (
	"os"
	"strings"
	"encoding/hex"
	"context"
	"path/filepath"
	"fmt"
	"go/ast"
	"go/constant"
	"go/token"
	"go/types"
	"math/big"
	"sort"

	"golang.org/x/tools/go/ssa"
)

// ---------- values ----------

type Val interface{}

type PtrKind int

const (
	PCell PtrKind = iota
	PHeap
	PArr  // whole backing array object in the element heap
	PElem // element of a backing array
	PGlobal
	PMulti // guarded set of alternatives (phi of differently shaped pointers)
)

type PtrAlt struct {
	G *Term
	P *Ptr
}

type CellKey struct {
	Alloc *ssa.Alloc
	id    int
}

type PathEl struct {
	Field int
	Idx   *Term // non-nil: array index
	ContT types.Type
}

type Ptr struct {
	Kind   PtrKind
	Cell   *CellKey
	Ref    *Term
	Idx    *Term
	Base   types.Type // PHeap: pointee type; PArr/PElem: element type; PCell/PGlobal: root type
	N      int64      // PArr: array length
	Global *ssa.Global
	Path   []PathEl
	Typ    types.Type // type at end of path
	NonNil bool
	Alts   []PtrAlt // PMulti
}

// mapAlts applies f to every alternative (under its guard) and builds the resulting multi-pointer.
func (e *Exec) mapAlts(p *Ptr, typ types.Type, f func(q *Ptr) *Ptr) *Ptr {
	out := &Ptr{Kind: PMulti, Typ: typ, NonNil: true}
	for _, a := range p.Alts {
		save := e.g
		e.g = And(e.g, a.G)
		q := f(a.P)
		e.g = save
		out.Alts = append(out.Alts, PtrAlt{a.G, q})
	}
	return out
}

type proxy struct {
	ref *Term
	p   *Ptr
	typ types.Type
	g   *Term
}

type Tuple []Val

type FnVal struct{ Fn *ssa.Function }
type ClosureVal struct {
	Fn       *ssa.Function
	Bindings []Val
}
type BuiltinVal struct{ B *ssa.Builtin }
type IterVal struct {
	X    Val
	T    types.Type
	Iter *Term // string: current byte index (BV64)
}

type State struct {
	heaps map[string]*Term
	cells map[*CellKey]*Term
	ac    *Term
	held  map[string]*Term // lockset: lock path -> Int (0 none, 1 read, 2 write)
	evs   *Term            // ghost event counter / trace handle (Int)
	atlock *State          // state right after the last lock acquisition (guarded state havocked), for atlock()
}

func (s *State) heapOr(name string, dflt *Term) *Term {
	if t, ok := s.heaps[name]; ok {
		return t
	}
	return dflt
}

func (s *State) clone() *State {
	n := &State{heaps: make(map[string]*Term, len(s.heaps)), cells: make(map[*CellKey]*Term, len(s.cells)), ac: s.ac, held: map[string]*Term{}, evs: s.evs, atlock: s.atlock}
	for k, v := range s.heaps {
		n.heaps[k] = v
	}
	for k, v := range s.cells {
		n.cells[k] = v
	}
	for k, v := range s.held {
		n.held[k] = v
	}
	return n
}

type retRec struct {
	g    *Term
	vals []Val
	st   *State
	pos  token.Pos
	blk  *ssa.BasicBlock
}

type edgeIn struct {
	g    *Term
	st   *State
	pred *ssa.BasicBlock
	idx  int // index in b.Preds
}

type Loop struct {
	Header   *ssa.BasicBlock
	Blocks   map[*ssa.BasicBlock]bool
	BackSrc  []*ssa.BasicBlock
	Ordinal  int
	Spec     *LoopSpec
	pending  int
	phiEntry map[*ssa.Phi]Val
	gIn      *Term
	varAtHdr []*Term // variant values at header (real run)
	env      map[string]Val
	candsOn  []*Cand
	MapRange bool
	savedHdr map[ssa.Value]Val
	stHdrEnd *State
	frameHeaps []string
}

type Cand struct {
	Key  string
	Desc string
	Eval func(e *Exec) *Term // evaluated at end of header block
}

type Options struct {
	Disabled map[string]bool // disabled Houdini candidates
	NoAuto   bool
	MaxInline int
}

type rootCtx struct {
	heap0     map[string]*Term
	ac0       *Term // allocation counter at function entry
	held0     map[string]*Term     // symbolic lock levels at entry (per lock key)
	heldInfo  map[string]*GuardInfo // lock key -> guard declaration of that lock
	heapSorts map[string]string
	strLits   map[string]*Term
	cellN     int
	nowN      int
	nows      []*Term
	lastNow   *Term
	inputs    []*Term
	candObls  map[string][]*Obligation
	accepted  []string // accepted auto invariants (descriptions)
	unsupported []string
	events    []string
	proxies   []*proxy
	seenLens  []*Term
	hashEmpty map[string]bool
	proveCache map[string]bool
	paramSyms map[string]bool
	probeN    int
}

type Exec struct {
	P      *Program
	vc     *VC
	fn     *ssa.Function
	con    *Contract
	root   *rootCtx
	depth  int
	opts   *Options
	regs   map[ssa.Value]Val
	guard  map[*ssa.BasicBlock]*Term
	out    map[*ssa.BasicBlock]*State
	brCond map[*ssa.BasicBlock]*Term
	st     *State
	g      *Term
	loops  map[*ssa.BasicBlock]*Loop
	loopOf map[*ssa.BasicBlock][]*Loop
	rets   []retRec
	silent bool
	params []Val
	st0    *State // state at function entry (for old())
	curInstr ssa.Instruction
	inlineStack []*ssa.Function
	top         *Exec // the execution of the function under verification (nil when this is it)
	defers []deferRec
	tagFacts map[string]bool
	onAcquire func(e *Exec, lock Val, level int)
	onAccess  func(e *Exec, p *Ptr, write bool)
	allocOn   bool
	ifaceCon  types.Type // non-nil: e.con is the contract of this interface's method
	allows    []frameAllow
	allowsDone bool
	inSize    *Term // total length of byte/string inputs of the unit function
}

type deferRec struct {
	g    *Term
	call *ssa.CallCommon
	args []Val
	fnv  Val
	in   ssa.Instruction
}

func (e *Exec) Unsupported(format string, a ...interface{}) {
	panic(unsupportedErr{fmt.Sprintf(format, a...)})
}

// ---------- heaps ----------

func (e *Exec) heapGet(name, sort string) *Term {
	if t, ok := e.st.heaps[name]; ok {
		return t
	}
	return e.heap0(name, sort)
}

func (e *Exec) heap0(name, sort string) *Term {
	if t, ok := e.root.heap0[name]; ok {
		return t
	}
	t := e.vc.Fresh(name, sort)
	e.root.heap0[name] = t
	e.root.heapSorts[name] = sort
	return t
}

func (e *Exec) heapSet(name string, t *Term) {
	if _, ok := e.root.heapSorts[name]; !ok {
		e.root.heapSorts[name] = t.Sort
		// make sure an initial version exists (for frame checks / merges)
		e.heap0(name, t.Sort)
	}
	e.st.heaps[name] = e.vc.Define(name, t)
}

func objHeap(t types.Type) (string, string) { return heapName(t), ArraySort(SInt, sortOf(t)) }
func elemHeap(t types.Type) (string, string) {
	return elemHeapName(t), ArraySort(SInt, ArraySort(BV(64), sortOf(t)))
}

func (e *Exec) allocRef(hint string) *Term {
	r := e.st.ac
	e.st.ac = e.vc.Define("ac", IntAdd(e.st.ac, IntLit(1)))
	_ = hint
	return r
}

// ---------- pointers: load / store ----------

func (e *Exec) rootVal(p *Ptr) *Term {
	switch p.Kind {
	case PCell:
		v, ok := e.st.cells[p.Cell]
		if !ok {
			// allocated on a path not merged into this one: value irrelevant
			v = zeroOf(p.Base)
		}
		return v
	case PHeap:
		n, s := objHeap(p.Base)
		return e.canonObj(e.heapGet(n, s), p.Ref)
	case PArr:
		n, s := elemHeap(p.Base)
		return e.canonObj(e.heapGet(n, s), p.Ref)
	case PElem:
		n, s := elemHeap(p.Base)
		return Select(e.canonObj(e.heapGet(n, s), p.Ref), p.Idx)
	case PGlobal:
		n := "G." + mangle(p.Global.Pkg.Pkg.Path()+"."+p.Global.Name())
		return e.heapGet(n, sortOf(p.Base))
	}
	panic("rootVal")
}

func (e *Exec) setRootVal(p *Ptr, v *Term) {
	switch p.Kind {
	case PCell:
		e.st.cells[p.Cell] = e.vc.Define("c."+p.Cell.Alloc.Comment, v)
	case PHeap:
		n, s := objHeap(p.Base)
		e.heapSet(n, Store(e.heapGet(n, s), p.Ref, e.vc.Define("o", v)))
	case PArr:
		n, s := elemHeap(p.Base)
		e.heapSet(n, Store(e.heapGet(n, s), p.Ref, e.vc.Define("arr", v)))
	case PElem:
		n, s := elemHeap(p.Base)
		h := e.heapGet(n, s)
		arr := Store(Select(h, p.Ref), p.Idx, e.vc.Define("el", v))
		e.heapSet(n, Store(h, p.Ref, e.vc.Define("arr", arr)))
	case PGlobal:
		n := "G." + mangle(p.Global.Pkg.Pkg.Path()+"."+p.Global.Name())
		e.heapGet(n, sortOf(p.Base))
		e.heapSet(n, v)
	}
}

// canonObj reads object ref from heap term h, walking through the chain of stores while the written references
// are syntactically equal to / different from ref (no solver queries). The result equals (select h ref).
func (e *Exec) canonObj(h *Term, ref *Term) *Term {
	budget := 6
	return e.canonObj1(h, ref, &budget)
}

func (e *Exec) canonObj1(h *Term, ref *Term, budget *int) *Term {
	cur := h
	for depth := 0; depth < 60; depth++ {
		t := cur
		if t.Op == "sym" {
			if d, ok := e.vc.defs[t.Name]; ok {
				t = d
			}
		}
		if t.Op == "ite" && *budget > 0 && t.Args[1].Sort == h.Sort {
			// reads distribute over merged heaps, so that frame facts about either side apply
			*budget--
			a := e.canonObj1(t.Args[1], ref, budget)
			b := e.canonObj1(t.Args[2], ref, budget)
			if same(a, b) {
				return a
			}
			return Ite(t.Args[0], a, b)
		}
		if t.Op != "store" {
			break
		}
		eq, neq := e.refRel(t.Args[1], ref)
		if eq {
			return t.Args[2]
		}
		if !neq {
			break
		}
		cur = t.Args[0]
	}
	return Select(cur, ref)
}

// pathGetDef is pathGet looking through named definitions of constructor terms, so that reading a field of
// an object that was just written yields the written (or the preserved old) field term.
func (e *Exec) pathGetDef(root *Term, path []PathEl) *Term {
	cur := root
	for _, pe := range path {
		if pe.Idx != nil {
			cur = Select(cur, pe.Idx)
			continue
		}
		for k := 0; k < 8 && cur.Op == "sym"; k++ {
			d, ok := e.vc.defs[cur.Name]
			if !ok || !(strings.HasPrefix(d.Op, "mk.") || d.Op == "sym") {
				break
			}
			cur = d
		}
		cur = FieldSel(structInfo(pe.ContT), cur, pe.Field)
	}
	return cur
}

func pathGet(root *Term, path []PathEl) *Term {
	cur := root
	for _, pe := range path {
		if pe.Idx != nil {
			cur = Select(cur, pe.Idx)
		} else {
			cur = FieldSel(structInfo(pe.ContT), cur, pe.Field)
		}
	}
	return cur
}

func pathSet(root *Term, path []PathEl, v *Term) *Term {
	if len(path) == 0 {
		return v
	}
	pe := path[0]
	if pe.Idx != nil {
		inner := pathSet(Select(root, pe.Idx), path[1:], v)
		return Store(root, pe.Idx, inner)
	}
	si := structInfo(pe.ContT)
	inner := pathSet(FieldSel(si, root, pe.Field), path[1:], v)
	return FieldUpd(si, root, pe.Field, inner)
}

func (e *Exec) nilCheck(p *Ptr, what string) {
	if p.NonNil || (p.Kind != PHeap && p.Kind != PArr && p.Kind != PElem) {
		return
	}
	if p.Kind == PElem {
		return // bounds check already implies a non-nil backing array when len > 0
	}
	e.check("nil", Neq(p.Ref, IntLit(0)), what)
	p.NonNil = true
}

func (e *Exec) load(p *Ptr) Val {
	if p.Kind == PMulti {
		gs := make([]*Term, len(p.Alts))
		vs := make([]Val, len(p.Alts))
		for i, a := range p.Alts {
			save := e.g
			e.g = And(e.g, a.G)
			vs[i] = e.load(a.P)
			e.g = save
			gs[i] = a.G
		}
		return e.mergeVals(gs, vs, "ld")
	}
	e.nilCheck(p, "nil dereference")
	e.lockCheck(p, false)
	rv := e.rootVal(p)
	t := e.pathGetDef(rv, p.Path)
	// a value read from the function's initial heap is an input object: its references are below the entry
	// allocation counter (not merely below the current one)
	if e.root.ac0 != nil && (p.Kind == PHeap || p.Kind == PArr || p.Kind == PElem) {
		b := rv
		for b.Op == "select" {
			b = b.Args[0]
		}
		if b.Op == "sym" {
			var hn string
			if p.Kind == PHeap {
				hn, _ = objHeap(p.Base)
			} else {
				hn, _ = elemHeap(p.Base)
			}
			if h0, ok := e.root.heap0[hn]; ok && h0 == b {
				save := e.st.ac
				e.st.ac = e.root.ac0
				v := e.fromTerm(t, p.Typ, true)
				e.st.ac = save
				return v
			}
		}
	}
	return e.fromTerm(t, p.Typ, true)
}

func (e *Exec) store(p *Ptr, v Val) {
	if p.Kind == PMulti {
		t := e.toTerm(v, p.Typ)
		for _, a := range p.Alts {
			save := e.g
			e.g = And(e.g, a.G)
			cur := e.toTerm(e.quietLoad(a.P), p.Typ)
			e.store(a.P, e.fromTerm(Ite(a.G, t, cur), p.Typ, false))
			e.g = save
		}
		return
	}
	e.nilCheck(p, "nil dereference (store)")
	e.lockCheck(p, true)
	t := e.toTerm(v, p.Typ)
	nv := pathSet(e.rootVal(p), p.Path, t)
	e.setRootVal(p, nv)
}

// fromTerm wraps a term of Go type t as a Val (pointers become Ptr values); assumeInv adds the type invariant.
func (e *Exec) fromTerm(t *Term, typ types.Type, assumeInv bool) Val {
	if assumeInv && hasInv(typ) {
		t = e.vc.Define("ld", t)
		e.vc.Assume(e.g, invOf(typ, t, e.st.ac))
	} else if hasInv(typ) {
		// contract evaluation: reuse the name an earlier load gave to the same expression, so that facts and
		// goals about it are syntactically equal
		if prev, ok := e.vc.defByExpr[t.Sort+"|"+t.String()]; ok {
			t = prev
		}
	}
	if e.allocOn && e.vc.frozen == 0 {
		switch t.Sort {
		case SSlice:
			e.root.seenLens = append(e.root.seenLens, SlLen(t))
		case SStr:
			e.root.seenLens = append(e.root.seenLens, StrLen(t))
		}
	}
	if pt, ok := types.Unalias(typ).Underlying().(*types.Pointer); ok {
		return e.ptrFromRef(t, pt.Elem())
	}
	return t
}

func (e *Exec) ptrFromRef(ref *Term, elem types.Type) *Ptr {
	if arr, ok := types.Unalias(elem).Underlying().(*types.Array); ok {
		return &Ptr{Kind: PArr, Ref: ref, Base: arr.Elem(), N: arr.Len(), Typ: elem}
	}
	return &Ptr{Kind: PHeap, Ref: ref, Base: elem, Typ: elem}
}

func (e *Exec) toTerm(v Val, typ types.Type) *Term {
	switch x := v.(type) {
	case *Term:
		return x
	case *Ptr:
		if (x.Kind == PHeap || x.Kind == PArr) && len(x.Path) == 0 {
			return x.Ref
		}
		if x.Kind == PMulti {
			ts := make([]*Term, len(x.Alts))
			gs := make([]*Term, len(x.Alts))
			for i, a := range x.Alts {
				ts[i] = e.toTerm(a.P, typ)
				gs[i] = a.G
			}
			return e.mergeTerms(gs, ts, "p")
		}
		e.Unsupported("interior or local pointer used as a value (%s)", e.P.posString(instrPos(e.curInstr)))
	case *FnVal:
		return IntLit(fnID(x.Fn))
	case *ClosureVal, *BuiltinVal:
		return e.vc.Fresh("fnval", SInt)
	case *IterVal:
		e.Unsupported("iterator as value")
	case nil:
		e.Unsupported("undefined value (unreachable definition?) at %s", e.P.posString(instrPos(e.curInstr)))
	}
	e.Unsupported("toTerm %T", v)
	return nil
}

// ---------- constants ----------

func (e *Exec) strLit(s string) *Term {
	if s == "" {
		return StrEmpty
	}
	if t, ok := e.root.strLits[s]; ok {
		return t
	}
	t := e.vc.Fresh("strlit", SStr)
	e.root.strLits[s] = t
	e.vc.Assume(True, Eq(StrLen(t), BVLitI(int64(len(s)), 64)))
	if len(s) <= 48 {
		for i := 0; i < len(s); i++ {
			e.vc.Assume(True, Eq(Select(StrArr(t), BVLitI(int64(i), 64)), BVLitI(int64(s[i]), 8)))
		}
	}
	if e.seqFacts() && len(s) <= 64 {
		// the literal as a sequence constant seqlit.<hex> (declared with its bytes on demand; spec files name it too)
		e.vc.Assume(True, Eq(App("bseq.of", "BSeq", StrArr(t), bv64zero, BVLitI(int64(len(s)), 64)), Sym("seqlit."+hex.EncodeToString([]byte(s)), "BSeq")))
	}
	// distinct from other literals of the same length follows from the byte facts; for long ones state it
	if len(s) > 48 {
		for o, ot := range e.root.strLits {
			if o != s && len(o) == len(s) {
				e.vc.Assume(True, Neq(t, ot))
			}
		}
	}
	return t
}

func (e *Exec) constVal(c *ssa.Const) Val {
	t := types.Unalias(c.Type())
	if c.Value == nil {
		// zero value / nil
		switch u := t.Underlying().(type) {
		case *types.Pointer:
			p := e.ptrFromRef(IntLit(0), u.Elem())
			return p
		case *types.Basic:
			if u.Kind() == types.UntypedNil {
				return IntLit(0)
			}
		}
		return zeroOf(t)
	}
	switch {
	case isBool(t):
		return Bool(constant.BoolVal(c.Value))
	case isString(t):
		return e.strLit(constant.StringVal(c.Value))
	case isInteger(t):
		w := bvWidth(sortOf(t))
		v, ok := new(big.Int).SetString(c.Value.ExactString(), 10)
		if !ok {
			if i64, ok2 := constant.Int64Val(constant.ToInt(c.Value)); ok2 {
				v = big.NewInt(i64)
			} else {
				e.Unsupported("constant %s", c.Value)
			}
		}
		return BVLit(v, w)
	case isFloat(t):
		return e.vc.Fresh("fconst", "Float")
	}
	e.Unsupported("constant of type %s", t)
	return nil
}

func (e *Exec) val(v ssa.Value) Val {
	switch x := v.(type) {
	case *ssa.Const:
		return e.constVal(x)
	case *ssa.Function:
		return &FnVal{x}
	case *ssa.Builtin:
		return &BuiltinVal{x}
	case *ssa.Global:
		el := deref(x.Type())
		return &Ptr{Kind: PGlobal, Global: x, Base: el, Typ: el, NonNil: true}
	}
	r, ok := e.regs[v]
	if !ok {
		e.Unsupported("use of value %s (%s) with no definition on this path at %s", v.Name(), v.String(), e.P.posString(instrPos(e.curInstr)))
	}
	return r
}

func (e *Exec) term(v ssa.Value) *Term { return e.toTerm(e.val(v), v.Type()) }

// ---------- obligations ----------

func (e *Exec) check(kind string, goal *Term, what string) {
	if e.silent {
		return
	}
	in := e.curInstr
	pos := token.NoPos
	if in != nil {
		pos = instrPos(in)
	}
	line := e.P.srcLine(pos)
	name := line
	if len(name) > 70 {
		name = name[:70]
	}
	desc := what + " @ " + e.P.posString(pos) + ": " + line
	if len(e.inlineStack) > 0 {
		desc += " (inlined into " + fnName(e.rootFn()) + ")"
		name = fnName(e.fn) + ">" + name
	}
	e.vc.Oblige(kind, name, desc, e.P.posString(pos), e.g, goal, e.root.inputs)
	e.vc.Assume(e.g, goal)
}

func (e *Exec) rootFn() *ssa.Function {
	if len(e.inlineStack) > 0 {
		return e.inlineStack[0]
	}
	return e.fn
}

// ---------- CFG ----------

func rpo(fn *ssa.Function, isBack func(from, to *ssa.BasicBlock) bool) []*ssa.BasicBlock {
	seen := map[*ssa.BasicBlock]bool{}
	var post []*ssa.BasicBlock
	var dfs func(b *ssa.BasicBlock)
	dfs = func(b *ssa.BasicBlock) {
		seen[b] = true
		for _, s := range b.Succs {
			if !seen[s] && !isBack(b, s) {
				dfs(s)
			}
		}
		post = append(post, b)
	}
	dfs(fn.Blocks[0])
	for i, j := 0, len(post)-1; i < j; i, j = i+1, j-1 {
		post[i], post[j] = post[j], post[i]
	}
	return post
}

func (e *Exec) analyzeLoops() {
	e.loops = map[*ssa.BasicBlock]*Loop{}
	e.loopOf = map[*ssa.BasicBlock][]*Loop{}
	fn := e.fn
	for _, b := range fn.Blocks {
		for _, s := range b.Succs {
			if s.Dominates(b) {
				lp := e.loops[s]
				if lp == nil {
					lp = &Loop{Header: s, Blocks: map[*ssa.BasicBlock]bool{s: true}}
					e.loops[s] = lp
				}
				lp.BackSrc = append(lp.BackSrc, b)
				// natural loop body
				work := []*ssa.BasicBlock{b}
				for len(work) > 0 {
					x := work[len(work)-1]
					work = work[:len(work)-1]
					if lp.Blocks[x] {
						continue
					}
					lp.Blocks[x] = true
					work = append(work, x.Preds...)
				}
			}
		}
	}
	// ordinals by enclosing AST loop statement
	var astLoops []ast.Node
	if syn := fn.Syntax(); syn != nil {
		var body ast.Node
		switch s := syn.(type) {
		case *ast.FuncDecl:
			body = s.Body
		case *ast.FuncLit:
			body = s.Body
		}
		if body != nil {
			ast.Inspect(body, func(n ast.Node) bool {
				switch n.(type) {
				case *ast.FuncLit:
					return false
				case *ast.ForStmt, *ast.RangeStmt:
					astLoops = append(astLoops, n)
				}
				return true
			})
		}
	}
	var hdrs []*ssa.BasicBlock
	for h := range e.loops {
		hdrs = append(hdrs, h)
	}
	sort.Slice(hdrs, func(i, j int) bool { return hdrs[i].Index < hdrs[j].Index })
	for _, h := range hdrs {
		lp := e.loops[h]
		lp.pending = len(lp.BackSrc)
		// innermost AST loop containing all positions of the loop's instructions
		var lo, hi token.Pos
		for b := range lp.Blocks {
			for _, in := range b.Instrs {
				if _, ok := in.(*ssa.DebugRef); ok {
					continue
				}
				if _, ok := in.(*ssa.Phi); ok {
					continue // a phi carries the position of the variable's declaration, possibly outside the loop
				}
				p := in.Pos()
				if !p.IsValid() {
					continue
				}
				if !lo.IsValid() || p < lo {
					lo = p
				}
				if p > hi {
					hi = p
				}
			}
		}
		best := -1
		for i, n := range astLoops {
			if lo.IsValid() && n.Pos() <= lo && hi <= n.End() {
				if best < 0 || (astLoops[best].End()-astLoops[best].Pos()) > (n.End()-n.Pos()) {
					best = i
				}
			}
		}
		lp.Ordinal = best + 1
		if e.con != nil && e.con.Loops != nil && best >= 0 {
			lp.Spec = e.con.Loops[lp.Ordinal]
		}
		for b := range lp.Blocks {
			e.loopOf[b] = append(e.loopOf[b], lp)
		}
		// map / string range loops terminate inherently
		for _, in := range h.Instrs {
			if _, ok := in.(*ssa.Next); ok {
				lp.MapRange = true
			}
		}
	}
}

func (e *Exec) isBack(from, to *ssa.BasicBlock) bool { return to.Dominates(from) }

func (e *Exec) edgeCond(p, b *ssa.BasicBlock, succIdx int) *Term {
	if len(p.Succs) == 2 {
		c := e.brCond[p]
		if c == nil {
			return True
		}
		if p.Succs[0] == p.Succs[1] {
			return True
		}
		if succIdx == 0 {
			return c
		}
		return Not(c)
	}
	return True
}

// incoming collects reachable incoming edges of b restricted by filter.
func (e *Exec) incoming(b *ssa.BasicBlock, filter func(p *ssa.BasicBlock) bool) []edgeIn {
	var out []edgeIn
	for i, p := range b.Preds {
		if !filter(p) {
			continue
		}
		g, ok := e.guard[p]
		if !ok || g.IsFalse() || e.out[p] == nil {
			continue
		}
		// which successor index of p is b (first match not yet used for duplicates)
		si := 0
		for k, s := range p.Succs {
			if s == b {
				si = k
				break
			}
		}
		// handle "if c goto b else b": both pred entries -> treat by occurrence
		occ := 0
		for j := 0; j < i; j++ {
			if b.Preds[j] == p {
				occ++
			}
		}
		if occ > 0 {
			cnt := 0
			for k, s := range p.Succs {
				if s == b {
					if cnt == occ {
						si = k
					}
					cnt++
				}
			}
		}
		eg := And(g, e.edgeCondIdx(p, si))
		if eg.IsFalse() {
			continue
		}
		out = append(out, edgeIn{g: eg, st: e.out[p], pred: p, idx: i})
	}
	return out
}

func (e *Exec) edgeCondIdx(p *ssa.BasicBlock, si int) *Term {
	if len(p.Succs) == 2 {
		c := e.brCond[p]
		if c == nil {
			return True
		}
		if si == 0 {
			return c
		}
		return Not(c)
	}
	return True
}

func (e *Exec) mergeTerms(gs []*Term, vs []*Term, hint string) *Term {
	allSame := true
	for _, v := range vs[1:] {
		if !same(v, vs[0]) {
			allSame = false
			break
		}
	}
	if allSame {
		return vs[0]
	}
	acc := vs[len(vs)-1]
	for i := len(vs) - 2; i >= 0; i-- {
		acc = Ite(gs[i], vs[i], acc)
	}
	return e.vc.Define(hint, acc)
}

func (e *Exec) mergeStates(edges []edgeIn) *State {
	if len(edges) == 1 {
		return edges[0].st.clone()
	}
	gs := make([]*Term, len(edges))
	for i, ed := range edges {
		gs[i] = ed.g
	}
	n := &State{heaps: map[string]*Term{}, cells: map[*CellKey]*Term{}, held: map[string]*Term{}}
	n.atlock = edges[0].st.atlock
	for _, ed := range edges {
		if ed.st.atlock != n.atlock {
			n.atlock = nil
		}
	}
	names := map[string]bool{}
	for _, ed := range edges {
		for k := range ed.st.heaps {
			names[k] = true
		}
	}
	var ns []string
	for k := range names {
		ns = append(ns, k)
	}
	sort.Strings(ns)
	for _, k := range ns {
		vs := make([]*Term, len(edges))
		for i, ed := range edges {
			if v, ok := ed.st.heaps[k]; ok {
				vs[i] = v
			} else {
				vs[i] = e.heap0(k, e.root.heapSorts[k])
			}
		}
		n.heaps[k] = e.mergeTerms(gs, vs, k)
	}
	cells := map[*CellKey]bool{}
	for _, ed := range edges {
		for k := range ed.st.cells {
			cells[k] = true
		}
	}
	var cks []*CellKey
	for k := range cells {
		cks = append(cks, k)
	}
	sort.Slice(cks, func(i, j int) bool { return cks[i].id < cks[j].id })
	for _, k := range cks {
		var vs, g2 []*Term
		for i, ed := range edges {
			if v, ok := ed.st.cells[k]; ok {
				vs = append(vs, v)
				g2 = append(g2, gs[i])
			}
		}
		n.cells[k] = e.mergeTerms(g2, vs, "c."+k.Alloc.Comment)
	}
	acs := make([]*Term, len(edges))
	evs := make([]*Term, len(edges))
	for i, ed := range edges {
		acs[i] = ed.st.ac
		evs[i] = ed.st.evs
	}
	n.ac = e.mergeTerms(gs, acs, "ac")
	if evs[0] != nil {
		n.evs = e.mergeTerms(gs, evs, "evs")
	}
	// locksets
	locks := map[string]bool{}
	for _, ed := range edges {
		for k := range ed.st.held {
			locks[k] = true
		}
	}
	for k := range locks {
		vs := make([]*Term, len(edges))
		for i, ed := range edges {
			if v, ok := ed.st.held[k]; ok {
				vs[i] = v
			} else {
				vs[i] = IntLit(0)
			}
		}
		n.held[k] = e.mergeTerms(gs, vs, "lk")
	}
	return n
}

func (e *Exec) mergeVals(gs []*Term, vs []Val, hint string) Val {
	if len(vs) == 1 {
		return vs[0]
	}
	switch v0 := vs[0].(type) {
	case *Term:
		ts := make([]*Term, len(vs))
		for i, v := range vs {
			t, ok := v.(*Term)
			if !ok {
				e.Unsupported("phi of mixed value kinds")
			}
			ts[i] = t
		}
		return e.mergeTerms(gs, ts, hint)
	case *Ptr:
		// same shape required
		refs := make([]*Term, len(vs))
		idxs := make([]*Term, len(vs))
		nonNil := true
		allIdentical := true
		if multi := e.tryMulti(gs, vs, v0); multi != nil {
			return multi
		}
		for i, v := range vs {
			p, ok := v.(*Ptr)
			if !ok {
				e.Unsupported("phi of pointer and non-pointer")
			}
			if p != v0 {
				allIdentical = false
			}
			// a nil constant pointer can merge with heap pointers of the same base
			if p.Kind != v0.Kind || len(p.Path) != len(v0.Path) || (p.Kind == PCell && p.Cell != v0.Cell) || (p.Kind == PGlobal && p.Global != v0.Global) {
				e.Unsupported("phi of pointers of different shapes at %s", e.P.posString(instrPos(e.curInstr)))
			}
			for k := range p.Path {
				if p.Path[k].Field != v0.Path[k].Field || (p.Path[k].Idx == nil) != (v0.Path[k].Idx == nil) {
					e.Unsupported("phi of pointers with different paths")
				}
				if p.Path[k].Idx != nil && !same(p.Path[k].Idx, v0.Path[k].Idx) {
					e.Unsupported("phi of pointers with different index paths")
				}
			}
			refs[i] = p.Ref
			idxs[i] = p.Idx
			nonNil = nonNil && p.NonNil
		}
		if allIdentical {
			return v0
		}
		np := *v0
		np.NonNil = nonNil
		if v0.Kind == PHeap || v0.Kind == PArr || v0.Kind == PElem {
			np.Ref = e.mergeTerms(gs, refs, hint)
		}
		if v0.Kind == PElem {
			np.Idx = e.mergeTerms(gs, idxs, hint)
		}
		return &np
	case Tuple:
		out := make(Tuple, len(v0))
		for k := range v0 {
			sub := make([]Val, len(vs))
			for i, v := range vs {
				sub[i] = v.(Tuple)[k]
			}
			out[k] = e.mergeVals(gs, sub, hint)
		}
		return out
	case *FnVal, *ClosureVal:
		for _, v := range vs[1:] {
			if fmt.Sprint(v) != fmt.Sprint(v0) {
				e.Unsupported("phi of different function values")
			}
		}
		return v0
	}
	e.Unsupported("phi of %T", vs[0])
	return nil
}

// tryMulti builds a guarded multi-pointer when the alternatives do not share one shape.
func (e *Exec) tryMulti(gs []*Term, vs []Val, v0 *Ptr) *Ptr {
	sameShape := true
	for _, v := range vs {
		p, ok := v.(*Ptr)
		if !ok {
			return nil
		}
		if p.Kind == PMulti || p.Kind != v0.Kind || len(p.Path) != len(v0.Path) || (p.Kind == PCell && p.Cell != v0.Cell) || (p.Kind == PGlobal && p.Global != v0.Global) {
			sameShape = false
			break
		}
		for k := range p.Path {
			if p.Path[k].Field != v0.Path[k].Field || (p.Path[k].Idx == nil) != (v0.Path[k].Idx == nil) || (p.Path[k].Idx != nil && !same(p.Path[k].Idx, v0.Path[k].Idx)) {
				sameShape = false
			}
		}
	}
	if sameShape {
		return nil
	}
	out := &Ptr{Kind: PMulti, Typ: v0.Typ, NonNil: true}
	for i, v := range vs {
		p := v.(*Ptr)
		if p.Kind == PMulti {
			for _, a := range p.Alts {
				out.Alts = append(out.Alts, PtrAlt{And(gs[i], a.G), a.P})
			}
			continue
		}
		out.Alts = append(out.Alts, PtrAlt{gs[i], p})
	}
	return out
}

func (e *Exec) evalPhis(b *ssa.BasicBlock, edges []edgeIn) map[*ssa.Phi]Val {
	out := map[*ssa.Phi]Val{}
	gs := make([]*Term, len(edges))
	for i, ed := range edges {
		gs[i] = ed.g
	}
	for _, in := range b.Instrs {
		phi, ok := in.(*ssa.Phi)
		if !ok {
			break
		}
		vs := make([]Val, len(edges))
		for i, ed := range edges {
			vs[i] = e.val(phi.Edges[ed.idx])
		}
		hint := phi.Comment
		if hint == "" {
			hint = phi.Name()
		}
		out[phi] = e.mergeVals(gs, vs, hint)
	}
	return out
}

// ---------- running a function body ----------

func (e *Exec) runBody() {
	e.analyzeLoops()
	order := rpo(e.fn, e.isBack)
	for _, b := range order {
		if lp := e.loops[b]; lp != nil {
			e.enterLoop(lp)
		} else if b.Index == 0 {
			// entry: e.st / e.g preset by caller
		} else {
			edges := e.incoming(b, func(*ssa.BasicBlock) bool { return true })
			if len(edges) == 0 {
				e.guard[b] = False
				continue
			}
			gs := make([]*Term, len(edges))
			for i, ed := range edges {
				gs[i] = ed.g
			}
			e.g = e.vc.Define("g", Or(gs...))
			e.st = e.mergeStates(edges)
			for phi, v := range e.evalPhis(b, edges) {
				e.regs[phi] = v
			}
		}
		e.guard[b] = e.g
		if e.g.IsFalse() {
			continue
		}
		e.execBlock(b, false)
		e.guard[b] = e.g
		e.out[b] = e.st
		for _, lp := range e.loopOf[b] {
			for _, s := range lp.BackSrc {
				if s == b {
					lp.pending--
				}
			}
			if lp.pending == 0 {
				lp.pending = -1
				e.closeLoop(lp)
			}
		}
	}
	// loops whose latch blocks were unreachable still need closing bookkeeping: nothing to check.
}

// execBlock executes the non-phi instructions of b. If hdrOnly, stops before the terminator (used by loop probes).
func (e *Exec) execBlock(b *ssa.BasicBlock, probe bool) {
	for _, in := range b.Instrs {
		if _, ok := in.(*ssa.Phi); ok {
			continue
		}
		e.curInstr = in
		e.execInstr(in, probe)
		if e.g.IsFalse() {
			return
		}
	}
}

// ---------- loops ----------

func (e *Exec) loopModified(lp *Loop) (cells map[*ssa.Alloc]bool, heaps map[string]string) {
	cells = map[*ssa.Alloc]bool{}
	heaps = map[string]string{}
	for b := range lp.Blocks {
		for _, in := range b.Instrs {
			switch x := in.(type) {
			case *ssa.Store:
				if a := rootAlloc(x.Addr); a != nil && !a.Heap && !isArrayAlloc(a) {
					cells[a] = true
				} else {
					e.P.storeTargets(x.Addr, heaps)
				}
			case *ssa.MapUpdate:
				if m, ok := types.Unalias(x.Map.Type()).Underlying().(*types.Map); ok {
					mp, mv := mapHeapNames(m)
					heaps[mp] = ArraySort(SInt, ArraySort(sortOf(m.Key()), SBool))
					heaps[mv] = ArraySort(SInt, ArraySort(sortOf(m.Key()), sortOf(m.Elem())))
				}
			case ssa.CallInstruction:
				if os.Getenv("GOWP_DEBUG_LOOP") != "" {
					tmp := map[string]string{}
					e.P.callMods(x.Common(), tmp)
					var ks []string
					for k := range tmp {
						ks = append(ks, k)
					}
					sort.Strings(ks)
					fmt.Fprintf(os.Stderr, "loopmods %s: %s -> %v\n", e.fn.Name(), x.Common().String(), ks)
				}
				e.P.callMods(x.Common(), heaps)
				// calls may also write cells whose address they receive (non-heap allocs never escape to calls)
			}
		}
	}
	return
}

func isArrayAlloc(a *ssa.Alloc) bool {
	_, ok := types.Unalias(deref(a.Type())).Underlying().(*types.Array)
	return ok
}

func rootAlloc(addr ssa.Value) *ssa.Alloc {
	for {
		switch a := addr.(type) {
		case *ssa.FieldAddr:
			addr = a.X
		case *ssa.IndexAddr:
			if _, ok := types.Unalias(a.X.Type()).Underlying().(*types.Pointer); ok {
				addr = a.X
			} else {
				return nil
			}
		case *ssa.Alloc:
			return a
		default:
			return nil
		}
	}
}

func (e *Exec) enterLoop(lp *Loop) {
	h := lp.Header
	entry := e.incoming(h, func(p *ssa.BasicBlock) bool { return !lp.Blocks[p] })
	if len(entry) == 0 {
		e.g = False
		return
	}
	gs := make([]*Term, len(entry))
	for i, ed := range entry {
		gs[i] = ed.g
	}
	gIn := e.vc.Define("g", Or(gs...))
	stIn := e.mergeStates(entry)
	phiIn := e.evalPhis(h, entry)
	lp.gIn = gIn
	lp.phiEntry = phiIn

	// 1. entry probe: run the header with entry values and check invariants at its end
	e.g, e.st = gIn, stIn.clone()
	saved := e.saveHeaderRegs(h)
	for phi, v := range phiIn {
		e.regs[phi] = v
	}
	wasSilent := e.silent
	e.silent = true
	e.execBlockNoTerm(h)
	e.silent = wasSilent
	entryEnv := e.snapshotHeaderRegs(h)
	e.checkInvariants(lp, "entry")
	e.restoreRegs(saved)

	// 2. havoc
	e.g, e.st = gIn, stIn.clone()
	cells, heaps := e.loopModified(lp)
	for ck := range e.st.cells {
		if cells[ck.Alloc] {
			e.st.cells[ck] = e.havocTerm("c."+ck.Alloc.Comment, deref(ck.Alloc.Type()))
		}
	}
	var hn []string
	for k := range heaps {
		hn = append(hn, k)
	}
	sort.Strings(hn)
	for _, k := range hn {
		e.heap0(k, heaps[k])
		e.st.heaps[k] = e.vc.Fresh(k, heaps[k])
	}
	if _, ok := heaps["GH.clock"]; ok {
		// the ghost clock only moves forward across iterations
		e.vc.Assume(True, SGe(e.st.heaps["GH.clock"], stIn.heapOr("GH.clock", e.clock0())))
		e.vc.Assume(True, App("time_ok", SBool, e.st.heaps["GH.clock"]))
	}
	e.assumeLoopFrame(lp, hn)
	nac := e.vc.Fresh("ac", SInt)
	e.vc.Assume(True, IntLe(e.st.ac, nac))
	e.st.ac = nac
	if e.st.evs != nil {
		nev := e.vc.Fresh("evs", SInt)
		e.vc.Assume(True, IntLe(e.st.evs, nev))
		e.st.evs = nev
	}
	for k := range e.st.held {
		_ = k // locksets are loop-invariant by discipline; checked at latch
	}
	for _, in := range h.Instrs {
		phi, ok := in.(*ssa.Phi)
		if !ok {
			break
		}
		// loop-invariant phi: every back-edge value is the phi itself
		inv := true
		for i, p := range h.Preds {
			if lp.Blocks[p] && phi.Edges[i] != ssa.Value(phi) {
				inv = false
			}
		}
		if inv {
			e.regs[phi] = phiIn[phi]
			continue
		}
		hint := phi.Comment
		if hint == "" {
			hint = phi.Name()
		}
		e.regs[phi] = e.havocVal(hint, phi.Type(), phiIn[phi])
	}
	// 3. real run of the header (obligations on), then assume invariants at its end
	e.curLoopEntryEnv(lp, entryEnv)
	lp.stHdrEnd = nil
	e.execHeaderWithInvariants(lp)
}

func (e *Exec) curLoopEntryEnv(lp *Loop, env map[ssa.Value]Val) { lp.savedHdr = env }

// execHeaderWithInvariants: the caller (runBody) executes the header block normally right after enterLoop
// returns; the invariants have to be assumed before the terminator. We do it by running the block here
// without its terminator, assuming, and letting runBody re-run only the terminator.
func (e *Exec) execHeaderWithInvariants(lp *Loop) {
	// nothing here: handled in execInstr for the terminator of a loop header (see hookBeforeTerminator)
}

func (e *Exec) saveHeaderRegs(h *ssa.BasicBlock) map[ssa.Value]Val {
	m := map[ssa.Value]Val{}
	for _, in := range h.Instrs {
		if v, ok := in.(ssa.Value); ok {
			if r, ok := e.regs[v]; ok {
				m[v] = r
			} else {
				m[v] = nil
			}
		}
	}
	return m
}

func (e *Exec) snapshotHeaderRegs(h *ssa.BasicBlock) map[ssa.Value]Val {
	m := map[ssa.Value]Val{}
	for _, in := range h.Instrs {
		if v, ok := in.(ssa.Value); ok {
			if r, ok := e.regs[v]; ok {
				m[v] = r
			}
		}
	}
	return m
}

func (e *Exec) restoreRegs(m map[ssa.Value]Val) {
	for v, r := range m {
		if r == nil {
			delete(e.regs, v)
		} else {
			e.regs[v] = r
		}
	}
}

func (e *Exec) execBlockNoTerm(b *ssa.BasicBlock) {
	for _, in := range b.Instrs {
		switch in.(type) {
		case *ssa.Phi:
			continue
		case *ssa.If, *ssa.Jump, *ssa.Return, *ssa.Panic:
			return
		}
		e.curInstr = in
		e.execInstr(in, true)
		if e.g.IsFalse() {
			return
		}
	}
}

func (e *Exec) havocTerm(hint string, t types.Type) *Term {
	x := e.vc.Fresh(hint, sortOf(t))
	if hasInv(t) {
		e.vc.Assume(True, invOf(t, x, e.st.ac))
	}
	return x
}

func (e *Exec) havocVal(hint string, t types.Type, like Val) Val {
	switch l := like.(type) {
	case *Ptr:
		if l.Kind == PHeap || l.Kind == PArr {
			if len(l.Path) == 0 {
				r := e.havocTerm(hint, t)
				np := *l
				np.Ref = r
				np.NonNil = false
				return &np
			}
		}
		e.Unsupported("loop-carried interior/local pointer")
	case Tuple:
		tt := t.(*types.Tuple)
		out := make(Tuple, len(l))
		for i := range l {
			out[i] = e.havocVal(hint, tt.At(i).Type(), l[i])
		}
		return out
	case *IterVal:
		return l
	case *FnVal, *ClosureVal:
		return l
	}
	if tt, ok := t.(*types.Tuple); ok {
		out := make(Tuple, tt.Len())
		for i := 0; i < tt.Len(); i++ {
			out[i] = e.havocVal(hint, tt.At(i).Type(), nil)
		}
		return out
	}
	return e.fromTerm(e.havocTerm(hint, t), t, false)
}

// called just before the terminator of a loop header during the real run
func (e *Exec) atHeaderEnd(lp *Loop) {
	e.assumeInvariants(lp)
	lp.varAtHdr = e.evalVariants(lp)
	lp.stHdrEnd = e.st.clone()
}

func (e *Exec) closeLoop(lp *Loop) {
	h := lp.Header
	latch := e.incoming(h, func(p *ssa.BasicBlock) bool { return lp.Blocks[p] })
	if len(latch) == 0 {
		return
	}
	gs := make([]*Term, len(latch))
	for i, ed := range latch {
		gs[i] = ed.g
	}
	saveG, saveSt := e.g, e.st
	saved := e.saveHeaderRegs(h)
	e.g = e.vc.Define("g", Or(gs...))
	e.st = e.mergeStates(latch)
	for phi, v := range e.evalPhis(h, latch) {
		e.regs[phi] = v
	}
	wasSilent := e.silent
	e.silent = true
	e.execBlockNoTerm(h)
	e.silent = wasSilent
	e.checkInvariants(lp, "preserved")
	e.checkLoopFrame(lp)
	e.checkVariants(lp)
	e.restoreRegs(saved)
	e.g, e.st = saveG, saveSt
}

// fieldNonNil: the location p ends in a struct field declared `nonnil` in a //@ type block
// (a representation invariant that is assumed, and listed as such).
func (e *Exec) fieldNullable(p *Ptr) bool {
	if p.Kind == PMulti {
		for _, a := range p.Alts {
			if e.fieldNullable(a.P) {
				return true
			}
		}
		return false
	}
	if len(p.Path) == 0 {
		return false
	}
	last := p.Path[len(p.Path)-1]
	if last.Idx != nil {
		return false
	}
	n, ok := types.Unalias(last.ContT).(*types.Named)
	if !ok {
		return false
	}
	tn := n.Obj().Name()
	if n.Obj().Pkg() != nil {
		tn = shortName(n.Obj().Pkg().Path()) + "." + tn
	}
	ts := e.P.TypeSpecs[tn]
	if ts == nil {
		return false
	}
	st := n.Underlying().(*types.Struct)
	_, ok = ts.Fields[st.Field(last.Field).Name()]["nullable"]
	return ok
}

func (e *Exec) fieldNonNil(p *Ptr) bool {
	if p.Kind == PMulti {
		for _, a := range p.Alts {
			if !e.fieldNonNil(a.P) {
				return false
			}
		}
		return len(p.Alts) > 0
	}
	if len(p.Path) == 0 {
		return false
	}
	last := p.Path[len(p.Path)-1]
	if last.Idx != nil {
		return false
	}
	n, ok := types.Unalias(last.ContT).(*types.Named)
	if !ok {
		return false
	}
	tn := n.Obj().Name()
	if n.Obj().Pkg() != nil {
		tn = shortName(n.Obj().Pkg().Path()) + "." + tn
	}
	ts := e.P.TypeSpecs[tn]
	if ts == nil {
		return false
	}
	st := n.Underlying().(*types.Struct)
	attrs := ts.Fields[st.Field(last.Field).Name()]
	if _, ok := attrs["nonnil"]; ok {
		e.vc.Trusted["representation invariant (assumed): "+tn+"."+st.Field(last.Field).Name()+" is never nil"] = true
		return true
	}
	return false
}

// proveNow asks the solver whether goal holds under the facts collected so far on the current path (short
// timeout; used only to resolve heap reads over writes when building sequence-level facts; a "no" is safe).
func (e *Exec) proveNow(goal *Term) bool {
	if goal.IsTrue() {
		return true
	}
	if goal.IsFalse() {
		return false
	}
	key := fmt.Sprintf("%s|%s", e.g.String(), goal.String())
	if e.root.proveCache == nil {
		e.root.proveCache = map[string]bool{}
	}
	if v, ok := e.root.proveCache[key]; ok {
		return v
	}
	o := &Obligation{Fn: e.vc.Fn, Name: "probe", Guard: e.g, Goal: goal, itemPos: len(e.vc.items), vc: e.vc}
	text := o.SMT(false)
	// probes use the quantifier-free relaxation (sound: fewer hypotheses) so that they answer at once
	var rb strings.Builder
	skip := 0
	for _, line := range strings.Split(text, "\n") {
		if skip > 0 {
			skip += strings.Count(line, "(") - strings.Count(line, ")")
			continue
		}
		if strings.HasPrefix(line, "(assert ") && (strings.Contains(line, "(forall ") || strings.Contains(line, "(exists ")) {
			skip = strings.Count(line, "(") - strings.Count(line, ")")
			continue
		}
		rb.WriteString(line + "\n")
	}
	text = rb.String()
	e.root.probeN++
	file := filepath.Join(ensureWorkDir(), fmt.Sprintf("probe_%s_%d.smt2", fileSafe.ReplaceAllString(trunc(e.vc.Fn, 60), "_"), e.root.probeN))
	os.WriteFile(file, []byte(text), 0644)
	r := runSolver(context.Background(), solvers[0], file, 2)
	os.Remove(file)
	res := r.verdict == "unsat"
	if os.Getenv("GOWP_PROBELOG") != "" {
		fmt.Fprintf(os.Stderr, "probe %s %.2fs %s %s\n", e.vc.Fn, r.secs, r.verdict, trunc(goal.String(), 120))
	}
	e.root.proveCache[key] = res
	return res
}

// canonArr resolves the backing array of reference ref in heap term h through the chain of stores, asking the
// solver whether the written references are equal to / different from ref. The result is equal to
// (select h ref) but syntactically stable across unrelated writes.
func (e *Exec) canonArr(h *Term, ref *Term) *Term {
	cur := h
	for depth := 0; depth < 40; depth++ {
		t := cur
		if t.Op == "sym" {
			if d, ok := e.vc.defs[t.Name]; ok {
				t = d
			}
		}
		if t.Op == "ite" {
			if e.proveNow(t.Args[0]) {
				cur = t.Args[1]
				continue
			}
			if e.proveNow(Not(t.Args[0])) {
				cur = t.Args[2]
				continue
			}
			break
		}
		if t.Op != "store" {
			break
		}
		idx := t.Args[1]
		if eq, neq := e.refRel(idx, ref); eq {
			return t.Args[2]
		} else if neq {
			cur = t.Args[0]
			continue
		}
		if same(idx, ref) || e.proveNow(Eq(idx, ref)) {
			return t.Args[2]
		}
		if e.proveNow(Neq(idx, ref)) {
			cur = t.Args[0]
			continue
		}
		break
	}
	return Select(cur, ref)
}

// refBase splits an Int reference term into (base, constant offset): ac!3, (+ ac!3 2), (+ (+ ac!3 1) 1) ...
func refBase(t *Term) (string, int64, bool) {
	off := int64(0)
	for {
		if t.Op == "+" && len(t.Args) == 2 && t.Args[1].IsLit() && t.Args[1].Lit.IsInt64() {
			off += t.Args[1].Lit.Int64()
			t = t.Args[0]
			continue
		}
		break
	}
	if t.Op == "sym" {
		return t.Name, off, true
	}
	if t.IsLit() && t.Lit.IsInt64() {
		return "#lit", off + t.Lit.Int64(), true
	}
	return "", 0, false
}

// refRel: syntactic (dis)equality of two references. Allocation references ac!k + c are at least the entry
// allocation counter, references held by the function's parameters are below it.
func (e *Exec) refRel(a, b *Term) (eq, neq bool) {
	if same(a, b) {
		return true, false
	}
	ba, oa, oka := refBase(a)
	bb, ob, okb := refBase(b)
	if oka && okb && ba == bb {
		return oa == ob, oa != ob
	}
	isAlloc := func(base string, ok bool) bool { return ok && strings.HasPrefix(base, "ac!") }
	isParam := func(t *Term) bool {
		if t.Op == "sym" {
			return e.root.paramSyms[t.Name]
		}
		if (t.Op == "s.ref" || t.Op == "i.ref") && len(t.Args) == 1 && t.Args[0].Op == "sym" {
			return e.root.paramSyms[t.Args[0].Name]
		}
		return false
	}
	if (isAlloc(ba, oka) && isParam(b)) || (isAlloc(bb, okb) && isParam(a)) {
		return false, true
	}
	return false, false
}

// clock0: the ghost clock at function entry (a well-formed instant).
func (e *Exec) clock0() *Term {
	_, had := e.root.heap0["GH.clock"]
	t := e.heap0("GH.clock", STime)
	if !had {
		e.vc.Assume(True, App("time_ok", SBool, t))
	}
	return t
}
