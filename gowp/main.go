package main

import (
	"flag"
	"fmt"
	"os"
	"path/filepath"
	"regexp"
	"sort"
	"strings"

	"golang.org/x/tools/go/ssa"
)

var verifDir = "/verif"

func loadAll(repo string, overlay map[string][]byte) (*Program, error) {
	p, err := LoadProgram(repo, overlay)
	if err != nil {
		return nil, err
	}
	specs, err := LoadSpecs(filepath.Join(verifDir, "spec"))
	if err != nil {
		return nil, err
	}
	p.Specs = specs
	if err := p.LoadContracts(p.ContractFiles(), false); err != nil {
		return nil, err
	}
	models, _ := filepath.Glob(filepath.Join(verifDir, "models", "*.model"))
	sort.Strings(models)
	if err := p.LoadContracts(models, true); err != nil {
		return nil, err
	}
	return p, nil
}

func main() {
	if len(os.Args) < 2 {
		fmt.Fprintln(os.Stderr, "usage: gowp fn|check|sweep ...")
		os.Exit(2)
	}
	switch os.Args[1] {
	case "fn":
		cmdFn(os.Args[2:])
	case "check":
		cmdCheck(os.Args[2:])
	default:
		fmt.Fprintln(os.Stderr, "unknown command")
		os.Exit(2)
	}
}

func cmdFn(args []string) {
	fs := flag.NewFlagSet("fn", flag.ExitOnError)
	verbose := fs.Bool("v", false, "verbose")
	keep := fs.Bool("keep", false, "keep smt files")
	timeout := fs.Int("t", 10, "timeout")
	noauto := fs.Bool("noauto", false, "no inferred invariants")
	repo := fs.String("repo", "/repo/v8", "module dir")
	fs.Parse(args)
	p, err := loadAll(*repo, nil)
	if err != nil {
		fmt.Fprintln(os.Stderr, err)
		os.Exit(2)
	}
	re := regexp.MustCompile(fs.Arg(0))
	var fns []*ssa.Function
	for n, f := range p.Funcs {
		if re.MatchString(n) && len(f.Blocks) > 0 {
			fns = append(fns, f)
		}
	}
	sort.Slice(fns, func(i, j int) bool { return fnName(fns[i]) < fnName(fns[j]) })
	tot, dis, triv, failed, unk, unsup := 0, 0, 0, 0, 0, 0
	for _, f := range fns {
		r := p.VerifyFunction(f, &VerifyOpts{TimeoutS: *timeout, Workers: 16, Keep: *keep, NoAuto: *noauto})
		if r.Unsupported != "" {
			unsup++
			fmt.Printf("UNSUPPORTED %s: %s\n", r.Fn, r.Unsupported)
			continue
		}
		for _, o := range r.Obls {
			tot++
			switch o.Status {
			case "trivial":
				triv++
			case "discharged":
				dis++
			case "failed":
				failed++
			default:
				unk++
			}
			if *verbose || (o.Status != "trivial" && o.Status != "discharged") {
				fmt.Printf("%-10s %s  [%s %.2fs]\n    %s\n", o.Status, o.Name, o.Solver, o.Secs, o.Desc)
				if o.Status != "trivial" && o.Status != "discharged" {
					if len(o.Model) > 0 {
						var ks []string
						for k := range o.Model {
							ks = append(ks, k)
						}
						sort.Strings(ks)
						for _, k := range ks {
							fmt.Printf("      %s = %s\n", k, trunc(strings.Join(strings.Fields(o.Model[k]), " "), 200))
						}
					} else if o.Raw != "" {
						fmt.Printf("      %s\n", trunc(o.Raw, 300))
					}
					if o.SMTFile != "" {
						fmt.Printf("      smt: %s\n", o.SMTFile)
					}
				}
			}
		}
		if r.Secs > 3 {
			fmt.Printf("    [time] %s %.1fs rounds=%d\n", r.Fn, r.Secs, r.Rounds)
		}
		if *verbose {
			for _, a := range r.AutoInv {
				fmt.Printf("    auto: %s\n", a)
			}
			for _, n := range r.Notes {
				fmt.Printf("    note: %s\n", n)
			}
		}
	}
	fmt.Printf("functions=%d unsupported=%d obligations=%d trivial=%d discharged=%d failed=%d unknown=%d\n", len(fns), unsup, tot, triv, dis, failed, unk)
	if !*keep && workDir != "" {
		os.RemoveAll(workDir)
	}
}

