package main

// Calls: builtins, Go-coded models of externals, calls by contract, inlining of small loop-free
// repository functions, and havoc for everything else.

import (
	"fmt"
	"go/types"
	"sort"
	"strings"

	"golang.org/x/tools/go/ssa"
)

func resultVal(vals []Val, sig *types.Signature) Val {
	switch sig.Results().Len() {
	case 0:
		return nil
	case 1:
		return vals[0]
	}
	return Tuple(vals)
}

func calleeName(c *ssa.CallCommon) string {
	if c.IsInvoke() {
		recv := types.Unalias(c.Value.Type())
		return "(" + shortName(types.TypeString(recv, nil)) + ")." + c.Method.Name()
	}
	if f := c.StaticCallee(); f != nil {
		return fnName(f)
	}
	return ""
}

func (e *Exec) execCall(in ssa.Instruction, c *ssa.CallCommon) Val {
	// builtins
	if b, ok := c.Value.(*ssa.Builtin); ok {
		return e.execBuiltin(b, c, in)
	}
	if len(e.root.proxies) > 0 {
		e.syncProxies(true)
		defer e.syncProxies(false)
	}
	return e.execCall2(in, c)
}

// syncProxies copies interior locations into their proxy objects before a call and back after it.
func (e *Exec) syncProxies(in bool) {
	for _, px := range e.root.proxies {
		n, hs := objHeap(px.typ)
		if in {
			cur := e.toTerm(e.quietLoad(px.p), px.typ)
			h := e.heapGet(n, hs)
			e.heapSet(n, Ite(px.g, Store(h, px.ref, cur), h))
		} else {
			if e.g.IsFalse() {
				continue
			}
			v := Select(e.heapGet(n, hs), px.ref)
			cur := e.toTerm(e.quietLoad(px.p), px.typ)
			s := e.silent
			e.silent = true
			e.store(px.p, e.fromTerm(Ite(px.g, v, cur), px.typ, true))
			e.silent = s
		}
	}
}

func (e *Exec) execCall2(in ssa.Instruction, c *ssa.CallCommon) Val {
	var args []Val
	var argTypes []types.Type
	if c.IsInvoke() {
		args = append(args, e.val(c.Value))
		argTypes = append(argTypes, c.Value.Type())
	}
	for _, a := range c.Args {
		args = append(args, e.val(a))
		argTypes = append(argTypes, a.Type())
	}
	sig := c.Signature()
	name := calleeName(c)

	// resolve function values
	var callee *ssa.Function
	if !c.IsInvoke() {
		switch fv := e.val(c.Value).(type) {
		case *FnVal:
			callee = fv.Fn
		case *ClosureVal:
			callee = fv.Fn
			// bindings are passed as free variables when inlined; with a contract they are extra trailing params
			if ct := e.P.Contracts[fnName(callee)]; ct != nil {
				return e.callByContract(ct, callee, append(append([]Val(nil), args...), fv.Bindings...), sig, in)
			}
			if e.canInline(callee) {
				return e.inlineCall(callee, args, fv.Bindings, in)
			}
			return e.havocCall(name, callee, c, args, sig)
		}
		if callee != nil {
			name = fnName(callee)
		}
	}
	// Go-coded models
	if m, ok := goModels[name]; ok {
		if v, handled := m(e, c, args, in); handled {
			return v
		}
	}
	if c.IsInvoke() {
		// known dynamic type? (tag literal) -> static dispatch
		if it, ok := args[0].(*Term); ok {
			if tag := IfTag(it); tag.IsLit() {
				for _, f := range e.P.callees(c) {
					if typeID(f.Signature.Recv().Type()) == tag.Lit.Int64() {
						recv := e.unbox(it, f.Signature.Recv().Type())
						nargs := append([]Val{recv}, args[1:]...)
						return e.callStatic(f, nargs, sig, in, c)
					}
				}
			}
		}
		// dynamic type provable on this path (e.g. after a type assertion or a store of a known value)?
		if it, ok := args[0].(*Term); ok && !e.silent {
			if cs := e.P.callees(c); len(cs) > 0 && len(cs) <= 8 {
				tag := IfTag(it)
				for _, f := range cs {
					if f.Signature.Recv() == nil {
						continue
					}
					if e.proveNow(Eq(tag, IntLit(typeID(f.Signature.Recv().Type())))) {
						recv := e.unbox(it, f.Signature.Recv().Type())
						nargs := append([]Val{recv}, args[1:]...)
						return e.callStatic(f, nargs, sig, in, c)
					}
				}
			}
		}
		if ct := e.P.Contracts[name]; ct != nil {
			return e.callByContract(ct, nil, args, sig, in)
		}
		return e.havocCall(name, nil, c, args, sig)
	}
	if callee == nil {
		// calling a hash constructor value (func() hash.Hash)
		if sig.Params().Len() == 0 && sig.Results().Len() == 1 && shortName(types.TypeString(sig.Results().At(0).Type(), nil)) == "hash.Hash" {
			if ft, ok := e.val(c.Value).(*Term); ok {
				return e.newHash(App("hashsize", BV(64), ft), ft, nil)
			}
		}
		return e.havocCall("dynamic call", nil, c, args, sig)
	}
	return e.callStatic(callee, args, sig, in, c)
}

func (e *Exec) callStatic(callee *ssa.Function, args []Val, sig *types.Signature, in ssa.Instruction, c *ssa.CallCommon) Val {
	name := fnName(callee)
	if m, ok := goModels[name]; ok && c != nil {
		if v, handled := m(e, c, args, in); handled {
			return v
		}
	}
	if ct := e.P.Contracts[name]; ct != nil && !ct.Inline {
		return e.callByContract(ct, callee, args, sig, in)
	} else if ct != nil && ct.Inline && !e.silent {
		// inlined at the call site, but its preconditions are still obligations of the caller
		env := e.callEnv(ct, callee, args, sig, e.st, nil)
		for k, rq := range ct.Requires {
			if t, err := env.EvalBool(rq.E); err == nil {
				line := e.P.srcLine(instrPos(in))
				e.vc.Oblige("requires", fmt.Sprintf("%s[%d]@%s", name, k, trunc(line, 50)), "precondition of "+name+": "+rq.Text+" @ "+e.P.posString(instrPos(in)), e.P.posString(instrPos(in)), e.g, t, e.root.inputs)
				e.vc.Assume(e.g, t)
			}
		}
	}
	if e.canInline(callee) {
		return e.inlineCall(callee, args, nil, in)
	}
	return e.havocCall(name, callee, c, args, sig)
}

// ---------- inlining ----------

const maxInlineInstrs = 60

func (p *Program) inlinable(f *ssa.Function) bool {
	if f == nil || len(f.Blocks) == 0 || !inRepo(f) {
		return false
	}
	if ct := p.Contracts[fnName(f)]; ct != nil {
		return ct.Inline
	}
	n := 0
	for _, b := range f.Blocks {
		for _, s := range b.Succs {
			if s.Dominates(b) {
				return false // loop
			}
		}
		for _, in := range b.Instrs {
			switch in.(type) {
			case *ssa.DebugRef:
				continue
			case *ssa.Defer, *ssa.Go, *ssa.Select, *ssa.Send:
				return false
			}
			n++
		}
	}
	return n <= maxInlineInstrs
}

func (e *Exec) canInline(f *ssa.Function) bool {
	if !e.P.inlinable(f) {
		return false
	}
	if len(e.inlineStack) >= 3 {
		return false
	}
	for _, s := range e.inlineStack {
		if s == f {
			return false
		}
	}
	return f != e.fn
}

func (e *Exec) inlineCall(callee *ssa.Function, args []Val, bindings []Val, in ssa.Instruction) Val {
	top := e.top
	if top == nil {
		top = e
	}
	sub := &Exec{P: e.P, vc: e.vc, fn: callee, root: e.root, depth: e.depth + 1, opts: e.opts, top: top,
		regs: map[ssa.Value]Val{}, guard: map[*ssa.BasicBlock]*Term{}, out: map[*ssa.BasicBlock]*State{},
		brCond: map[*ssa.BasicBlock]*Term{}, st: e.st, g: e.g, silent: e.silent, st0: e.st0, tagFacts: e.tagFacts,
		onAcquire: e.onAcquire, onAccess: e.onAccess, allocOn: e.allocOn, inSize: e.inSize}
	sub.inlineStack = append(append([]*ssa.Function(nil), e.inlineStack...), e.fn)
	if len(e.inlineStack) == 0 {
		sub.inlineStack = []*ssa.Function{e.fn}
	}
	for i, p := range callee.Params {
		if i < len(args) {
			sub.regs[p] = args[i]
		}
	}
	for i, fv := range callee.FreeVars {
		if i < len(bindings) {
			sub.regs[fv] = bindings[i]
		}
	}
	sub.runBody()
	// merge returns
	if len(sub.rets) == 0 {
		e.g = False
		return e.dummyResult(callee.Signature)
	}
	var edges []edgeIn
	for _, r := range sub.rets {
		edges = append(edges, edgeIn{g: r.g, st: r.st})
	}
	gs := make([]*Term, len(edges))
	for i, ed := range edges {
		gs[i] = ed.g
	}
	e.g = e.vc.Define("g", Or(gs...))
	e.st = e.mergeStates(edges)
	nres := callee.Signature.Results().Len()
	vals := make([]Val, nres)
	for k := 0; k < nres; k++ {
		vs := make([]Val, len(sub.rets))
		for i, r := range sub.rets {
			vs[i] = r.vals[k]
		}
		vals[k] = e.mergeVals(gs, vs, "r")
	}
	return resultVal(vals, callee.Signature)
}

func (e *Exec) dummyResult(sig *types.Signature) Val {
	vals := make([]Val, sig.Results().Len())
	for i := range vals {
		vals[i] = e.havocVal("r", sig.Results().At(i).Type(), nil)
	}
	return resultVal(vals, sig)
}

// ---------- havoc ----------

func (e *Exec) havocCall(name string, callee *ssa.Function, c *ssa.CallCommon, args []Val, sig *types.Signature) Val {
	external := callee == nil || !inRepo(callee)
	if external && c != nil {
		e.vc.Note("external, results arbitrary: %s", name)
		e.externalEffects(name, callee, c, args)
	} else {
		mods := map[string]string{}
		if c != nil {
			func() {
				defer func() {
					if r := recover(); r != nil {
						if _, ok := r.(unsupportedErr); !ok {
							panic(r)
						}
					}
				}()
				e.P.callMods(c, mods)
			}()
		} else if callee != nil {
			for k, v := range e.P.ModSet(callee) {
				mods[k] = v
			}
		}
		e.vc.Note("havocked (no contract): %s", name)
		e.havocHeaps(mods)
		e.havocPtrArgs(args, mods)
	}
	vals := make([]Val, sig.Results().Len())
	for i := range vals {
		vals[i] = e.havocVal("r", sig.Results().At(i).Type(), nil)
	}
	return resultVal(vals, sig)
}

// externalEffects: an external function may write the pointees of its pointer arguments (also when passed
// through an interface), the elements of its slice arguments and the entries of its map arguments; anything
// deeper that it writes is freshly allocated or private to the library object (assumption, listed).
func (e *Exec) externalEffects(name string, callee *ssa.Function, c *ssa.CallCommon, args []Val) {
	var idxs []int
	all := true
	if callee != nil {
		if ix, ok := mutatingExternals[fnName(callee)]; ok {
			idxs, all = ix, false
		} else if isPureExternal(callee) {
			idxs, all = nil, false
		}
	}
	// ssa values of the arguments (receiver of an invoke first)
	var svals []ssa.Value
	if c.IsInvoke() {
		svals = append(svals, c.Value)
	}
	svals = append(svals, c.Args...)
	if all {
		for i := range args {
			idxs = append(idxs, i)
		}
	}
	wrote := false
	for _, i := range idxs {
		if i >= len(args) || i >= len(svals) {
			continue
		}
		if e.havocReach1(args[i], svals[i]) {
			wrote = true
		}
	}
	if wrote || all {
		nac := e.vc.Fresh("ac", SInt)
		e.vc.Assume(True, IntLe(e.st.ac, nac))
		e.st.ac = nac
	}
	e.vc.Trusted["externals write only the pointees / elements / entries of their arguments (deeper writes are to fresh or library-private memory)"] = true
}

func (e *Exec) havocReach1(v Val, sv ssa.Value) bool {
	s := e.silent
	e.silent = true
	defer func() { e.silent = s }()
	switch x := v.(type) {
	case *Ptr:
		if x.Kind == PHeap && x.Ref != nil && x.Ref.IsLit() && x.Ref.Lit.Sign() == 0 {
			return false
		}
		if _, isSig := types.Unalias(x.Typ).Underlying().(*types.Signature); isSig {
			return false
		}
		np := *x
		np.NonNil = true
		if x.Kind == PHeap && !x.NonNil {
			// possibly nil: conditional
			cur := e.toTerm(e.quietLoad(&np), x.Typ)
			nv := e.toTerm(e.havocVal("hv", x.Typ, nil), x.Typ)
			e.store(&np, e.fromTerm(Ite(Neq(x.Ref, IntLit(0)), nv, cur), x.Typ, false))
			return true
		}
		e.store(&np, e.havocVal("hv", x.Typ, nil))
		return true
	case *Term:
		switch tt := types.Unalias(sv.Type()).Underlying().(type) {
		case *types.Slice:
			old := e.backing(x, tt.Elem())
			na := e.vc.Fresh("hv", old.Sort)
			k := Sym("k", BV(64))
			inR := And(SGe(k, SlOff(x)), SLt(k, BVAdd(SlOff(x), SlCap(x))))
			e.vc.Assume(True, Forall([][2]string{{"k", BV(64)}}, Implies(Not(inR), Eq(Select(na, k), Select(old, k))), Select(na, k)))
			e.setBackingIf(Neq(SlRef(x), IntLit(0)), SlRef(x), tt.Elem(), na)
			return true
		case *types.Map:
			mp, mv := mapHeapNames(tt)
			ps := ArraySort(SInt, ArraySort(sortOf(tt.Key()), SBool))
			vs := ArraySort(SInt, ArraySort(sortOf(tt.Key()), sortOf(tt.Elem())))
			hp, hv := e.heapGet(mp, ps), e.heapGet(mv, vs)
			e.heapSet(mp, Ite(Neq(x, IntLit(0)), Store(hp, x, e.vc.Fresh("hvp", ArraySort(sortOf(tt.Key()), SBool))), hp))
			e.heapSet(mv, Ite(Neq(x, IntLit(0)), Store(hv, x, e.vc.Fresh("hvv", ArraySort(sortOf(tt.Key()), sortOf(tt.Elem())))), hv))
			return true
		case *types.Interface:
			// pointer boxed into an interface: look through MakeInterface for the static pointee type
			var inner types.Type
			if mi, ok := sv.(*ssa.MakeInterface); ok {
				inner = mi.X.Type()
			} else if x.Op == "mk-iface" && x.Args[0].IsLit() {
				inner = e.typeByID(x.Args[0].Lit.Int64())
			}
			if inner == nil {
				return false
			}
			if pt, ok := types.Unalias(inner).Underlying().(*types.Pointer); ok {
				if _, isArr := types.Unalias(pt.Elem()).Underlying().(*types.Array); isArr {
					return false
				}
				n, hs := objHeap(pt.Elem())
				h := e.heapGet(n, hs)
				nv := e.havocTerm("hv", pt.Elem())
				e.heapSet(n, Ite(Neq(IfRef(x), IntLit(0)), Store(h, IfRef(x), nv), h))
				return true
			}
			if sl, ok := types.Unalias(inner).Underlying().(*types.Slice); ok {
				_ = sl
			}
		}
	}
	return false
}

// typeByID finds a pointer type by its interface tag among the types boxed so far (none kept: nil).
func (e *Exec) typeByID(id int64) types.Type { return nil }

// havocPtrArgs: a callee writing through *T parameters writes, for interior / local / global pointer
// arguments, the location they denote (which lives in another heap than H.T).
func (e *Exec) havocPtrArgs(args []Val, mods map[string]string) {
	for _, a := range args {
		p, ok := a.(*Ptr)
		if !ok {
			continue
		}
		var alts []*Ptr
		if p.Kind == PMulti {
			for _, x := range p.Alts {
				alts = append(alts, x.P)
			}
		} else {
			alts = []*Ptr{p}
		}
		for _, q := range alts {
			if (q.Kind == PHeap || q.Kind == PArr) && len(q.Path) == 0 {
				continue
			}
			hn := ""
			func() {
				defer func() { recover() }()
				if arr, ok := types.Unalias(q.Typ).Underlying().(*types.Array); ok {
					hn = elemHeapName(arr.Elem())
				} else {
					hn = heapName(q.Typ)
				}
			}()
			if _, written := mods[hn]; !written {
				continue
			}
			s := e.silent
			e.silent = true
			if p.Kind == PMulti {
				e.store(p, e.havocVal("hv", p.Typ, nil))
				e.silent = s
				break
			}
			e.store(q, e.havocVal("hv", q.Typ, nil))
			e.silent = s
		}
	}
}

func (e *Exec) havocHeaps(mods map[string]string) {
	var names []string
	for k := range mods {
		names = append(names, k)
	}
	sort.Strings(names)
	for _, k := range names {
		e.heap0(k, mods[k])
		e.st.heaps[k] = e.vc.Fresh(k, mods[k])
	}
	nac := e.vc.Fresh("ac", SInt)
	e.vc.Assume(True, IntLe(e.st.ac, nac))
	e.st.ac = nac
}

// ---------- builtins ----------

func (e *Exec) execBuiltin(b *ssa.Builtin, c *ssa.CallCommon, in ssa.Instruction) Val {
	switch b.Name() {
	case "len":
		return e.lenOf(e.val(c.Args[0]), c.Args[0].Type())
	case "cap":
		switch types.Unalias(c.Args[0].Type()).Underlying().(type) {
		case *types.Slice:
			return SlCap(e.term(c.Args[0]))
		case *types.Array:
			return BVLitI(types.Unalias(c.Args[0].Type()).Underlying().(*types.Array).Len(), 64)
		}
		return e.vc.Fresh("cap", BV(64))
	case "append":
		return e.execAppend(c)
	case "copy":
		return e.execCopy(c)
	case "delete":
		m := types.Unalias(c.Args[0].Type()).Underlying().(*types.Map)
		mr := e.term(c.Args[0])
		k := e.term(c.Args[1])
		mp, _ := mapHeapNames(m)
		ps := ArraySort(SInt, ArraySort(sortOf(m.Key()), SBool))
		e.guardedAccess(mp, true, "delete")
		hp := e.heapGet(mp, ps)
		e.heapSet(mp, Ite(Eq(mr, IntLit(0)), hp, Store(hp, mr, e.vc.Define("mp", Store(Select(hp, mr), k, False)))))
		return nil
	case "print", "println":
		return nil
	case "panic":
		e.check("panic", False, "explicit panic reachable")
		e.g = False
		return nil
	case "recover":
		e.vc.Note("recover() in %s returns nil in this model", fnName(e.fn))
		return NilIface
	case "min", "max":
		a, bb := e.term(c.Args[0]), e.term(c.Args[1])
		signed := isSigned(c.Args[0].Type())
		var lt *Term
		if signed {
			lt = SLt(a, bb)
		} else {
			lt = ULt(a, bb)
		}
		if b.Name() == "min" {
			return Ite(lt, a, bb)
		}
		return Ite(lt, bb, a)
	case "close":
		return nil
	}
	e.Unsupported("builtin %s", b.Name())
	return nil
}

func (e *Exec) lenOf(v Val, t types.Type) *Term {
	switch u := types.Unalias(t).Underlying().(type) {
	case *types.Slice:
		return SlLen(v.(*Term))
	case *types.Basic:
		return StrLen(v.(*Term))
	case *types.Array:
		return BVLitI(u.Len(), 64)
	case *types.Pointer:
		if a, ok := types.Unalias(u.Elem()).Underlying().(*types.Array); ok {
			return BVLitI(a.Len(), 64)
		}
	case *types.Map:
		mp, _ := mapHeapNames(u)
		ps := ArraySort(SInt, ArraySort(sortOf(u.Key()), SBool))
		mr := v.(*Term)
		e.guardedAccess(mp, false, "len")
		r := e.vc.Fresh("maplen", BV(64))
		e.vc.Assume(True, And(SGe(r, bv64zero), SLe(r, maxLen)))
		e.declareRaw("(declare-fun maplen." + mangle(typeKey(u.Key())) + " (" + ArraySort(sortOf(u.Key()), SBool) + ") (_ BitVec 64))")
		e.vc.Assume(True, Eq(r, App("maplen."+mangle(typeKey(u.Key())), BV(64), Select(e.heapGet(mp, ps), mr))))
		// an empty map has no keys (stated for this map only)
		mk := Sym("ml.q", sortOf(u.Key()))
		pres := Select(Select(e.heapGet(mp, ps), mr), mk)
		e.vc.Assume(True, Implies(Eq(r, bv64zero), Forall([][2]string{{"ml.q", sortOf(u.Key())}}, Not(pres), pres)))
		return r
	case *types.Chan:
		return e.vc.Fresh("chanlen", BV(64))
	}
	e.Unsupported("len of %s", t)
	return nil
}

func (e *Exec) declareRaw(decl string) {
	if e.vc.rawSeen == nil {
		e.vc.rawSeen = map[string]bool{}
	}
	if e.vc.rawSeen[decl] {
		return
	}
	e.vc.rawSeen[decl] = true
	e.vc.items = append(e.vc.items, Item{Raw: decl})
}

// byteArr returns the backing array term of slice s with element type el in the current state.
func (e *Exec) backing(s *Term, el types.Type) *Term {
	n, hs := elemHeap(el)
	return Select(e.heapGet(n, hs), SlRef(s))
}

// backingCanon: like backing, with read-over-write resolution (for sequence-level facts on byte slices).
func (e *Exec) backingCanon(s *Term, el types.Type) *Term {
	n, hs := elemHeap(el)
	if !e.seqFacts() || e.vc.frozen > 0 {
		return Select(e.heapGet(n, hs), SlRef(s))
	}
	return e.canonArr(e.heapGet(n, hs), SlRef(s))
}

func (e *Exec) setBacking(ref *Term, el types.Type, arr *Term) {
	n, hs := elemHeap(el)
	e.heapSet(n, Store(e.heapGet(n, hs), ref, arr))
}

// copyInto returns an array equal to dst except that [doff, doff+n) holds src[soff, soff+n).
func (e *Exec) copyInto(dst *Term, doff *Term, src *Term, soff *Term, n *Term, hint string) *Term {
	// small literal n: explicit stores (keeps byte-layout proofs quantifier free)
	if n.IsLit() && n.Lit.IsInt64() && n.Lit.Int64() <= 32 {
		arr := dst
		for i := int64(0); i < n.Lit.Int64(); i++ {
			arr = Store(arr, BVAdd(doff, BVLitI(i, 64)), Select(src, BVAdd(soff, BVLitI(i, 64))))
		}
		return e.vc.Define(hint, arr)
	}
	na := e.vc.Fresh(hint, dst.Sort)
	k := Sym("k", BV(64))
	in := And(SGe(k, doff), SLt(k, BVAdd(doff, n)))
	body := Eq(Select(na, k), Ite(in, Select(src, BVAdd(soff, BVSub(k, doff))), Select(dst, k)))
	e.vc.Assume(True, Forall([][2]string{{"k", BV(64)}}, body, Select(na, k)))
	return na
}

func (e *Exec) execCopy(c *ssa.CallCommon) Val {
	dst := e.term(c.Args[0])
	el := types.Unalias(c.Args[0].Type()).Underlying().(*types.Slice).Elem()
	var srcArr, srcOff, srcLen *Term
	if isString(c.Args[1].Type()) {
		s := e.term(c.Args[1])
		srcArr, srcOff, srcLen = StrArr(s), bv64zero, StrLen(s)
	} else {
		s := e.term(c.Args[1])
		srcArr, srcOff, srcLen = e.backingCanon(s, el), SlOff(s), SlLen(s)
	}
	n := e.vc.Define("ncopy", Ite(SLt(SlLen(dst), srcLen), SlLen(dst), srcLen))
	old := e.vc.Define("cpold", e.backingCanon(dst, el))
	srcArr = e.vc.Define("src", srcArr)
	na := e.copyInto(old, SlOff(dst), srcArr, srcOff, n, "cp")
	// copying 0 elements into a nil slice must not create an object
	e.setBackingIf(Neq(SlRef(dst), IntLit(0)), SlRef(dst), el, na)
	if isByteType(el) && e.seqFacts() {
		// copied prefix of dst equals the copied prefix of src; the rest of dst is unchanged
		e.vc.Assume(e.g, Eq(App("bseq.of", "BSeq", na, SlOff(dst), n), App("bseq.of", "BSeq", srcArr, srcOff, n)))
		rest := BVSub(SlLen(dst), n)
		e.vc.Assume(e.g, Eq(App("bseq.of", "BSeq", na, BVAdd(SlOff(dst), n), rest), App("bseq.of", "BSeq", old, BVAdd(SlOff(dst), n), rest)))
		// whole destination = copied part || untouched part
		e.vc.Assume(e.g, Eq(App("bseq.of", "BSeq", na, SlOff(dst), SlLen(dst)),
			App("seqcat", "BSeq", App("bseq.of", "BSeq", srcArr, srcOff, n), App("bseq.of", "BSeq", old, BVAdd(SlOff(dst), n), rest))))
	}
	return n
}

func isByteType(t types.Type) bool {
	if b, ok := types.Unalias(t).Underlying().(*types.Basic); ok {
		return b.Kind() == types.Uint8
	}
	return false
}

// seqFacts: sequence-level facts are only emitted when the spec library declares the sequence sort.
func (e *Exec) seqFacts() bool {
	return e.vc.specs != nil && e.vc.specs.ByName["bseq.of"] != nil
}

func (e *Exec) setBackingIf(cond *Term, ref *Term, el types.Type, arr *Term) {
	n, hs := elemHeap(el)
	h := e.heapGet(n, hs)
	e.heapSet(n, Ite(cond, Store(h, ref, arr), h))
}

func (e *Exec) execAppend(c *ssa.CallCommon) Val {
	s := e.term(c.Args[0])
	el := types.Unalias(c.Args[0].Type()).Underlying().(*types.Slice).Elem()
	var srcArr, srcOff, n *Term
	if isString(c.Args[1].Type()) {
		t := e.term(c.Args[1])
		srcArr, srcOff, n = StrArr(t), bv64zero, StrLen(t)
	} else {
		t := e.term(c.Args[1])
		srcArr, srcOff, n = e.backing(t, el), SlOff(t), SlLen(t)
	}
	if isByteType(el) && !isString(c.Args[1].Type()) {
		srcArr = e.backingCanon(e.term(c.Args[1]), el)
	}
	srcArr = e.vc.Define("src", srcArr)
	newLen := e.vc.Define("nlen", BVAdd(SlLen(s), n))
	// len+n <= 2^48 is the address-space assumption (two live slices cannot exceed it together), not an obligation
	e.trust("address space: the result of append has length <= 2^48")
	e.vc.Assume(e.g, SLe(newLen, maxLen))
	fits := e.vc.Define("fits", SLe(newLen, SlCap(s)))
	fresh := e.allocRef("app")
	ncap := e.vc.Fresh("ncap", BV(64))
	e.vc.Assume(True, And(SGe(ncap, newLen), SLe(ncap, maxLen)))
	oldArr := e.vc.Define("old", e.backingCanon(s, el))
	// in place: old array with the new elements written after len
	inPlace := e.copyInto(oldArr, BVAdd(SlOff(s), SlLen(s)), srcArr, srcOff, n, "app")
	// fresh: copy old contents to offset 0, then new elements
	base := e.copyInto(ConstArr(oldArr.Sort, zeroOf(el)), bv64zero, oldArr, SlOff(s), SlLen(s), "appc")
	moved := e.copyInto(base, SlLen(s), srcArr, srcOff, n, "app")
	ref := e.vc.Define("ref", Ite(fits, SlRef(s), fresh))
	// appending nothing to a nil slice keeps it nil
	isNoop := And(Eq(n, bv64zero), Eq(SlRef(s), IntLit(0)))
	nh, hs := elemHeap(el)
	h := e.heapGet(nh, hs)
	e.heapSet(nh, Ite(isNoop, h, Store(h, ref, Ite(fits, inPlace, moved))))
	res := MkSlice(ref, Ite(fits, SlOff(s), bv64zero), newLen, Ite(fits, SlCap(s), ncap))
	out := e.vc.Define("apps", Ite(isNoop, s, res))
	if isByteType(el) && e.seqFacts() {
		// the same on the sequence abstraction: result = old contents || appended contents
		newArr := e.vc.Define("apparr", e.backingCanon(out, el))
		e.vc.Assume(e.g, Eq(App("bseq.of", "BSeq", newArr, SlOff(out), SlLen(out)),
			App("seqcat", "BSeq", App("bseq.of", "BSeq", oldArr, SlOff(s), SlLen(s)), App("bseq.of", "BSeq", srcArr, srcOff, n))))
	}
	return out
}

// ---------- defers ----------

func (e *Exec) runDefers() {
	ds := e.defers
	e.defers = nil
	for i := len(ds) - 1; i >= 0; i-- {
		d := ds[i]
		name := calleeName(d.call)
		if cv, ok := d.fnv.(*ClosureVal); ok {
			name = fnName(cv.Fn)
		}
		if m, ok := deferModels[name]; ok {
			m(e, d)
			continue
		}
		if b, ok := d.call.Value.(*ssa.Builtin); ok && (b.Name() == "close" || b.Name() == "print" || b.Name() == "println") {
			continue
		}
		// effect under the guard the defer was pushed with: conservative havoc of what the callee may write
		mods := map[string]string{}
		func() {
			defer func() { recover() }()
			e.P.callMods(d.call, mods)
		}()
		if cv, ok := d.fnv.(*ClosureVal); ok {
			for k, v := range e.P.ModSet(cv.Fn) {
				mods[k] = v
			}
			if strings.Contains(fnName(cv.Fn), "$") {
				e.vc.Note("deferred closure %s: effects havocked", fnName(cv.Fn))
			}
		}
		if len(mods) > 0 {
			e.vc.Note("deferred call %s: effects havocked", name)
			e.havocHeaps(mods)
		}
	}
}
