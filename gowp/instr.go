package main

// Instruction rules (DESIGN.md Appendix A.3).

import (
	"go/token"
	"go/types"

	"golang.org/x/tools/go/ssa"
)

var bv64zero = BVLitI(0, 64)
var maxLen = BVLitI(1<<48, 64)

func (e *Exec) execInstr(in ssa.Instruction, probe bool) {
	switch x := in.(type) {
	case *ssa.DebugRef:
		return
	case *ssa.Alloc:
		e.regs[x] = e.execAlloc(x)
	case *ssa.FieldAddr:
		p, ok := e.val(x.X).(*Ptr)
		if !ok {
			e.Unsupported("FieldAddr on non-pointer value")
		}
		st := deref(x.X.Type())
		fa := func(p *Ptr) *Ptr {
			e.nilCheck(p, "nil dereference (field address)")
			np := *p
			np.Path = append(append([]PathEl(nil), p.Path...), PathEl{Field: x.Field, ContT: st})
			np.Typ = deref(x.Type())
			return &np
		}
		if p.Kind == PMulti {
			e.regs[x] = e.mapAlts(p, deref(x.Type()), fa)
		} else {
			e.regs[x] = fa(p)
		}
	case *ssa.IndexAddr:
		e.regs[x] = e.execIndexAddr(x)
	case *ssa.UnOp:
		e.regs[x] = e.execUnOp(x)
	case *ssa.BinOp:
		e.regs[x] = e.execBinOp(x)
	case *ssa.Store:
		p, ok := e.val(x.Addr).(*Ptr)
		if !ok {
			e.Unsupported("store through non-pointer")
		}
		e.store(p, e.val(x.Val))
	case *ssa.Field:
		sv := e.term(x.X)
		si := structInfo(x.X.Type())
		e.regs[x] = e.fromTerm(FieldSel(si, sv, x.Field), x.Type(), false)
	case *ssa.Index:
		e.regs[x] = e.execIndex(x)
	case *ssa.Extract:
		tv, ok := e.val(x.Tuple).(Tuple)
		if !ok {
			e.Unsupported("extract from non-tuple")
		}
		e.regs[x] = tv[x.Index]
	case *ssa.Convert:
		e.regs[x] = e.execConvert(x)
	case *ssa.ChangeType:
		e.regs[x] = e.execChangeType(x)
	case *ssa.MakeInterface:
		e.regs[x] = e.makeInterface(e.val(x.X), x.X.Type())
	case *ssa.ChangeInterface:
		e.regs[x] = e.val(x.X)
	case *ssa.TypeAssert:
		e.regs[x] = e.execTypeAssert(x)
	case *ssa.Slice:
		e.regs[x] = e.execSlice(x)
	case *ssa.MakeSlice:
		e.regs[x] = e.execMakeSlice(x)
	case *ssa.MakeMap:
		m := types.Unalias(x.Type()).Underlying().(*types.Map)
		r := e.allocRef("map")
		mp, mv := mapHeapNames(m)
		ps := ArraySort(SInt, ArraySort(sortOf(m.Key()), SBool))
		vs := ArraySort(SInt, ArraySort(sortOf(m.Key()), sortOf(m.Elem())))
		e.heapSet(mp, Store(e.heapGet(mp, ps), r, ConstArr(ArraySort(sortOf(m.Key()), SBool), False)))
		e.heapGet(mv, vs)
		e.regs[x] = r
	case *ssa.MakeChan:
		e.vc.Note("channel created in %s (channels are outside the subset; treated as opaque)", fnName(e.fn))
		e.regs[x] = e.allocRef("chan")
	case *ssa.MakeClosure:
		var bs []Val
		for _, b := range x.Bindings {
			bs = append(bs, e.val(b))
		}
		e.regs[x] = &ClosureVal{Fn: x.Fn.(*ssa.Function), Bindings: bs}
	case *ssa.Lookup:
		e.regs[x] = e.execLookup(x)
	case *ssa.MapUpdate:
		e.execMapUpdate(x)
	case *ssa.Range:
		it := &IterVal{X: e.val(x.X), T: x.X.Type()}
		if isString(x.X.Type()) {
			it.Iter = bv64zero
		}
		e.regs[x] = it
	case *ssa.Next:
		e.regs[x] = e.execNext(x)
	case *ssa.Phi:
		return
	case *ssa.Call:
		e.regs[x] = e.execCall(x, x.Common())
	case *ssa.Go:
		e.vc.Note("go statement in %s: spawned function is its own verification unit; spawn treated as no-op", fnName(e.fn))
	case *ssa.Defer:
		var args []Val
		for _, a := range x.Call.Args {
			args = append(args, e.val(a))
		}
		var fv Val
		if !x.Call.IsInvoke() {
			if _, isB := x.Call.Value.(*ssa.Builtin); !isB {
				fv = e.val(x.Call.Value)
			}
		} else {
			fv = e.val(x.Call.Value)
		}
		e.defers = append(e.defers, deferRec{g: e.g, call: &x.Call, args: args, fnv: fv, in: x})
	case *ssa.RunDefers:
		e.runDefers()
	case *ssa.If:
		if lp := e.loops[x.Block()]; lp != nil && !probe {
			e.atHeaderEnd(lp)
		}
		c := e.term(x.Cond)
		e.brCond[x.Block()] = e.vc.Define("br", c)
	case *ssa.Jump:
		if lp := e.loops[x.Block()]; lp != nil && !probe {
			e.atHeaderEnd(lp)
		}
	case *ssa.Return:
		var vs []Val
		for _, r := range x.Results {
			vs = append(vs, e.val(r))
		}
		e.rets = append(e.rets, retRec{g: e.g, vals: vs, st: e.st, pos: x.Pos(), blk: x.Block()})
	case *ssa.Panic:
		if e.con == nil || !e.con.MayPanic {
			e.check("panic", False, "explicit panic reachable")
		}
		e.g = False
	case *ssa.Send:
		// a send changes no modelled state: channel contents are not modelled, blocking is decided separately by the
		// structural rule on channel capacities (C11)
		e.val(x.Chan)
		e.val(x.X)
		e.vc.Note("channel send in %s treated as a no-op on the modelled state (channel contents and blocking are not modelled)", fnName(e.fn))
	case *ssa.Select:
		e.Unsupported("channel operation (outside the subset)")
	case *ssa.SliceToArrayPointer, *ssa.MultiConvert:
		e.Unsupported("%T", in)
	default:
		e.Unsupported("instruction %T", in)
	}
}

func (e *Exec) execAlloc(x *ssa.Alloc) Val {
	el := deref(x.Type())
	if arr, ok := types.Unalias(el).Underlying().(*types.Array); ok {
		r := e.allocRef("arr")
		n, s := elemHeap(arr.Elem())
		e.heapSet(n, Store(e.heapGet(n, s), r, zeroOf(el)))
		return &Ptr{Kind: PArr, Ref: r, Base: arr.Elem(), N: arr.Len(), Typ: el, NonNil: true}
	}
	if x.Heap {
		r := e.allocRef(x.Comment)
		n, s := objHeap(el)
		e.heapSet(n, Store(e.heapGet(n, s), r, zeroOf(el)))
		return &Ptr{Kind: PHeap, Ref: r, Base: el, Typ: el, NonNil: true}
	}
	e.root.cellN++
	ck := &CellKey{Alloc: x, id: e.root.cellN}
	e.st.cells[ck] = zeroOf(el)
	return &Ptr{Kind: PCell, Cell: ck, Base: el, Typ: el, NonNil: true}
}

func (e *Exec) boundsCheck(idx *Term, ln *Term, what string) {
	// 0 <= idx < len  (signed idx already widened to 64 bits)
	e.check("bounds", And(SGe(idx, bv64zero), SLt(idx, ln)), what)
}

func (e *Exec) idx64(v ssa.Value) *Term {
	t := e.term(v)
	return Resize(t, 64, isSigned(v.Type()))
}

func (e *Exec) execIndexAddr(x *ssa.IndexAddr) Val {
	i := e.vc.Define("i", e.idx64(x.Index))
	switch xt := types.Unalias(x.X.Type()).Underlying().(type) {
	case *types.Slice:
		s := e.term(x.X)
		e.boundsCheck(i, SlLen(s), "index out of range")
		return &Ptr{Kind: PElem, Ref: SlRef(s), Idx: e.vc.Define("ix", BVAdd(SlOff(s), i)), Base: xt.Elem(), Typ: xt.Elem(), NonNil: true}
	case *types.Pointer:
		p, ok := e.val(x.X).(*Ptr)
		if !ok {
			e.Unsupported("IndexAddr on non-pointer")
		}
		arr := types.Unalias(xt.Elem()).Underlying().(*types.Array)
		ia := func(p *Ptr) *Ptr {
			e.nilCheck(p, "nil dereference (array index)")
			if p.Kind == PArr {
				return &Ptr{Kind: PElem, Ref: p.Ref, Idx: i, Base: arr.Elem(), Typ: arr.Elem(), NonNil: true}
			}
			np := *p
			np.Path = append(append([]PathEl(nil), p.Path...), PathEl{Idx: i, ContT: xt.Elem()})
			np.Typ = arr.Elem()
			return &np
		}
		e.boundsCheck(i, BVLitI(arr.Len(), 64), "index out of range")
		if p.Kind == PMulti {
			return e.mapAlts(p, arr.Elem(), ia)
		}
		return ia(p)
	}
	e.Unsupported("IndexAddr on %s", x.X.Type())
	return nil
}

func (e *Exec) execIndex(x *ssa.Index) Val {
	i := e.idx64(x.Index)
	switch xt := types.Unalias(x.X.Type()).Underlying().(type) {
	case *types.Array:
		a := e.term(x.X)
		e.boundsCheck(i, BVLitI(xt.Len(), 64), "index out of range")
		return e.fromTerm(Select(a, i), x.Type(), true)
	case *types.Basic: // string
		s := e.term(x.X)
		e.boundsCheck(i, StrLen(s), "string index out of range")
		return Select(StrArr(s), i)
	}
	e.Unsupported("Index on %s", x.X.Type())
	return nil
}

func (e *Exec) execUnOp(x *ssa.UnOp) Val {
	switch x.Op {
	case token.MUL:
		p, ok := e.val(x.X).(*Ptr)
		if !ok {
			e.Unsupported("load through non-pointer")
		}
		v := e.load(p)
		if mt, ok := v.(*Term); ok && !e.fieldNullable(p) {
			if _, isMap := types.Unalias(x.Type()).Underlying().(*types.Map); isMap {
				e.vc.Assume(e.g, IntLt(IntLit(0), mt))
				e.vc.Trusted["maps loaded from struct fields are initialised (non-nil) unless the field is declared nullable"] = true
			}
		}
		if lp, ok := v.(*Ptr); ok && lp.Ref != nil && !e.fieldNullable(p) {
			// pointers loaded from memory are assumed non-nil unless the field is declared `nullable`
			lp.NonNil = true
			e.vc.Assume(e.g, IntLt(IntLit(0), lp.Ref))
			e.vc.Trusted["pointers loaded from struct fields / slice elements are non-nil when dereferenced, except fields declared nullable in a //@ type block"] = true
		}
		if t, ok := v.(*Term); ok {
			return e.vc.Define(x.Name(), t)
		}
		return v
	case token.NOT:
		return Not(e.term(x.X))
	case token.SUB:
		if isFloat(x.Type()) {
			return e.vc.Fresh("f", "Float")
		}
		return BVNeg(e.term(x.X))
	case token.XOR:
		return BVNot(e.term(x.X))
	case token.ARROW:
		e.Unsupported("channel receive (outside the subset)")
	}
	e.Unsupported("unop %s", x.Op)
	return nil
}

func (e *Exec) execBinOp(x *ssa.BinOp) Val {
	xt := x.X.Type()
	// pointers
	if px, ok := e.val(x.X).(*Ptr); ok {
		py, ok2 := e.val(x.Y).(*Ptr)
		if !ok2 {
			// comparison with untyped nil
			if t, ok3 := e.val(x.Y).(*Term); ok3 && t.Sort == SInt {
				py = &Ptr{Kind: px.Kind, Ref: t}
			} else {
				e.Unsupported("pointer compared with non-pointer")
			}
		}
		var eq *Term
		switch {
		case (px.Kind == PHeap || px.Kind == PArr) && (py.Kind == PHeap || py.Kind == PArr) && len(px.Path) == 0 && len(py.Path) == 0:
			eq = Eq(px.Ref, py.Ref)
		case px.Kind == PMulti && py.Ref != nil && py.Ref.IsLit() && py.Ref.Lit.Sign() == 0:
			// multi-pointer against nil: nil only if the chosen alternative is a nil heap pointer
			var alts []*Term
			for _, a := range px.Alts {
				if (a.P.Kind == PHeap || a.P.Kind == PArr) && len(a.P.Path) == 0 {
					alts = append(alts, And(a.G, Eq(a.P.Ref, IntLit(0))))
				}
			}
			eq = Or(alts...)
		case px.Kind == PCell || px.Kind == PGlobal || px.NonNil:
			// address of a local/global/known object against nil
			if (py.Kind == PHeap || py.Kind == PArr) && py.Ref != nil && py.Ref.IsLit() && py.Ref.Lit.Sign() == 0 {
				eq = False
			} else {
				e.Unsupported("comparison of interior/local pointers")
			}
		default:
			e.Unsupported("comparison of interior pointers")
		}
		if x.Op == token.EQL {
			return eq
		}
		return Not(eq)
	}
	a, b := e.term(x.X), e.term(x.Y)
	if fv, ok := e.val(x.X).(*FnVal); ok {
		_ = fv
	}
	switch {
	case isFloat(xt):
		if x.Op == token.EQL || x.Op == token.NEQ || x.Op == token.LSS || x.Op == token.GTR || x.Op == token.LEQ || x.Op == token.GEQ {
			return e.vc.Fresh("fcmp", SBool)
		}
		return e.vc.Fresh("f", "Float")
	case isString(xt):
		switch x.Op {
		case token.ADD:
			r := e.vc.Fresh("cat", SStr)
			e.vc.Assume(True, Eq(StrLen(r), BVAdd(StrLen(a), StrLen(b))))
			e.vc.Assume(True, App("str_ok", SBool, r))
			e.vc.Assume(True, Eq(r, App("strcat", SStr, a, b)))
			// sequence-level fact: the bytes of a concatenation
			sq := func(t *Term) *Term { return App("bseq.of", "BSeq", StrArr(t), bv64zero, StrLen(t)) }
			e.vc.Assume(True, Eq(sq(r), App("seqcat", "BSeq", sq(a), sq(b))))
			return r
		case token.EQL:
			return e.strEq(a, b)
		case token.NEQ:
			return Not(e.strEq(a, b))
		default:
			lt := App("strlt", SBool, a, b)
			switch x.Op {
			case token.LSS:
				return lt
			case token.GTR:
				return App("strlt", SBool, b, a)
			case token.LEQ:
				return Not(App("strlt", SBool, b, a))
			case token.GEQ:
				return Not(lt)
			}
		}
	case isBool(xt):
		switch x.Op {
		case token.EQL:
			return Eq(a, b)
		case token.NEQ:
			return Neq(a, b)
		case token.AND, token.LAND:
			return And(a, b)
		case token.OR, token.LOR:
			return Or(a, b)
		}
	case isInteger(xt):
		signed := isSigned(xt)
		w := bvWidth(a.Sort)
		switch x.Op {
		case token.ADD:
			return BVAdd(a, b)
		case token.SUB:
			return BVSub(a, b)
		case token.MUL:
			return BVMul(a, b)
		case token.QUO, token.REM:
			e.check("div0", Neq(b, BVLitI(0, w)), "division by zero")
			op := "bvudiv"
			if x.Op == token.REM {
				op = "bvurem"
			}
			if signed {
				op = "bvsdiv"
				if x.Op == token.REM {
					op = "bvsrem"
				}
			}
			return bvBin(op, a, b)
		case token.AND:
			return bvBin("bvand", a, b)
		case token.OR:
			return bvBin("bvor", a, b)
		case token.XOR:
			return bvBin("bvxor", a, b)
		case token.AND_NOT:
			return bvBin("bvand", a, BVNot(b))
		case token.SHL, token.SHR:
			yt := x.Y.Type()
			wy := bvWidth(b.Sort)
			if isSigned(yt) {
				e.check("negshift", SGe(b, BVLitI(0, wy)), "negative shift count")
			}
			// bring the count to the width of the operand, saturating
			var cnt *Term
			if wy == w {
				cnt = b
			} else if wy < w {
				cnt = Resize(b, w, false)
			} else {
				big := UGe(b, BVLitI(int64(w), wy))
				cnt = Ite(big, BVLitI(int64(w), w), Resize(b, w, false))
			}
			if x.Op == token.SHL {
				return bvBin("bvshl", a, cnt)
			}
			if signed {
				return bvBin("bvashr", a, cnt)
			}
			return bvBin("bvlshr", a, cnt)
		case token.EQL:
			return Eq(a, b)
		case token.NEQ:
			return Neq(a, b)
		case token.LSS:
			if signed {
				return SLt(a, b)
			}
			return ULt(a, b)
		case token.LEQ:
			if signed {
				return SLe(a, b)
			}
			return ULe(a, b)
		case token.GTR:
			if signed {
				return SGt(a, b)
			}
			return UGt(a, b)
		case token.GEQ:
			if signed {
				return SGe(a, b)
			}
			return UGe(a, b)
		}
	default:
		// structs, arrays, interfaces, maps, channels, slices-vs-nil: == and !=
		var eq *Term
		switch types.Unalias(xt).Underlying().(type) {
		case *types.Slice:
			// only comparison with nil is legal
			other := b
			s := a
			if x.X.(ssa.Value) != nil {
				if c, ok := x.X.(*ssa.Const); ok && c.Value == nil {
					s, other = b, a
				}
			}
			_ = other
			eq = Eq(SlRef(s), IntLit(0))
		case *types.Interface:
			eq = e.ifaceEq(a, b, x)
		default:
			eq = Eq(a, b)
		}
		if x.Op == token.EQL {
			return eq
		}
		if x.Op == token.NEQ {
			return Not(eq)
		}
	}
	e.Unsupported("binop %s on %s", x.Op, xt)
	return nil
}

func (e *Exec) strEq(a, b *Term) *Term {
	if same(a, StrEmpty) {
		return Eq(StrLen(b), bv64zero)
	}
	if same(b, StrEmpty) {
		return Eq(StrLen(a), bv64zero)
	}
	return Eq(a, b)
}

// interface equality: nil comparison is exact; otherwise tag and reference equality (boxed values of
// equal content in different boxes compare unequal here: an under-approximation of ==, noted).
func (e *Exec) ifaceEq(a, b *Term, x *ssa.BinOp) *Term {
	if same(a, NilIface) {
		return Eq(IfTag(b), IntLit(0))
	}
	if same(b, NilIface) {
		return Eq(IfTag(a), IntLit(0))
	}
	e.vc.Note("interface equality in %s compared by dynamic type and reference", fnName(e.fn))
	r := e.vc.Fresh("ifeq", SBool)
	e.vc.Assume(True, Implies(Eq(a, b), r))
	e.vc.Assume(True, Implies(Neq(IfTag(a), IfTag(b)), Not(r)))
	return r
}

func (e *Exec) execConvert(x *ssa.Convert) Val {
	from, to := types.Unalias(x.X.Type()), types.Unalias(x.Type())
	switch {
	case isInteger(from) && isInteger(to):
		return Resize(e.term(x.X), bvWidth(sortOf(to)), isSigned(from))
	case isInteger(from) && isFloat(to), isFloat(from) && isFloat(to):
		return App("float.of", "Float", Resize(e.termOrFloat(x.X), 64, isSigned(from)))
	case isFloat(from) && isInteger(to):
		return e.vc.Fresh("f2i", sortOf(to))
	case isString(from) && isByteSlice(to):
		s := e.term(x.X)
		r := e.allocRef("bytes")
		n, hs := elemHeap(types.Typ[types.Byte])
		e.heapSet(n, Store(e.heapGet(n, hs), r, StrArr(s)))
		return MkSlice(r, bv64zero, StrLen(s), StrLen(s))
	case isByteSlice(from) && isString(to):
		return e.bytesToString(e.term(x.X))
	case isString(from) && isString(to):
		return e.term(x.X)
	case isInteger(from) && isString(to):
		r := e.vc.Fresh("runestr", SStr)
		e.vc.Assume(True, And(SGe(StrLen(r), BVLitI(1, 64)), SLe(StrLen(r), BVLitI(4, 64))))
		return r
	case isString(from) && isRuneSlice(to):
		s := e.term(x.X)
		r := e.allocRef("runes")
		// the runes of a string are an uninterpreted function of its bytes
		sq := App("bseq.of", "BSeq", StrArr(s), bv64zero, StrLen(s))
		ln := e.vc.Define("nrunes", App("runes.len", BV(64), sq))
		e.vc.Assume(True, And(SGe(ln, bv64zero), SLe(ln, StrLen(s))))
		n, hs := elemHeap(types.Typ[types.Rune])
		e.heapSet(n, Store(e.heapGet(n, hs), r, App("runes.arr", ArraySort(BV(64), BV(32)), sq)))
		return MkSlice(r, bv64zero, ln, ln)
	case isRuneSlice(from) && isString(to):
		s := e.term(x.X)
		r := e.vc.Fresh("str", SStr)
		e.vc.Assume(True, App("str_ok", SBool, r))
		e.vc.Assume(True, SLe(StrLen(r), BVMul(SlLen(s), BVLitI(4, 64))))
		return r
	case isUnsafePointer(from) || isUnsafePointer(to):
		e.Unsupported("unsafe pointer conversion")
	}
	e.Unsupported("convert %s -> %s", from, to)
	return nil
}

func (e *Exec) termOrFloat(v ssa.Value) *Term {
	t := e.term(v)
	if t.Sort == "Float" {
		return e.vc.Fresh("fi", BV(64))
	}
	return t
}

func (e *Exec) bytesToString(b *Term) *Term {
	r := e.vc.Fresh("str", SStr)
	e.vc.Assume(True, Eq(StrLen(r), SlLen(b)))
	n, hs := elemHeap(types.Typ[types.Byte])
	arr := Select(e.heapGet(n, hs), SlRef(b))
	// content: r[k] = arr[off+k]
	k := Sym("k", BV(64))
	body := Implies(And(SGe(k, bv64zero), SLt(k, SlLen(b))), Eq(Select(StrArr(r), k), Select(arr, BVAdd(SlOff(b), k))))
	e.vc.Assume(True, Forall([][2]string{{"k", BV(64)}}, body, Select(StrArr(r), k)))
	e.vc.Assume(True, Eq(r, App("strof", SStr, e.vc.Define("arr", arr), SlOff(b), SlLen(b))))
	// sequence-level fact: the string's bytes are the slice's bytes
	e.vc.Assume(True, Eq(App("bseq.of", "BSeq", StrArr(r), bv64zero, StrLen(r)), e.bseqOf(b)))
	return r
}

func isByteSlice(t types.Type) bool {
	if s, ok := types.Unalias(t).Underlying().(*types.Slice); ok {
		if b, ok := types.Unalias(s.Elem()).Underlying().(*types.Basic); ok {
			return b.Kind() == types.Uint8
		}
	}
	return false
}

func isRuneSlice(t types.Type) bool {
	if s, ok := types.Unalias(t).Underlying().(*types.Slice); ok {
		if b, ok := types.Unalias(s.Elem()).Underlying().(*types.Basic); ok {
			return b.Kind() == types.Int32
		}
	}
	return false
}

func isUnsafePointer(t types.Type) bool {
	if b, ok := types.Unalias(t).Underlying().(*types.Basic); ok {
		return b.Kind() == types.UnsafePointer
	}
	return false
}

func (e *Exec) execChangeType(x *ssa.ChangeType) Val {
	v := e.val(x.X)
	from, to := x.X.Type(), x.Type()
	t, ok := v.(*Term)
	if !ok {
		if p, ok := v.(*Ptr); ok {
			// pointer type change (same underlying pointee layout)
			np := *p
			if len(p.Path) == 0 && (p.Kind == PHeap) {
				el := deref(to)
				if sortOf(el) != sortOf(p.Base) {
					e.Unsupported("pointer conversion between distinct struct types")
				}
			}
			return &np
		}
		return v
	}
	sf, st := sortOf(from), sortOf(to)
	if sf == st {
		return t
	}
	return e.convertStruct(t, from, to)
}

// convertStruct converts between struct types with identical underlying field lists.
func (e *Exec) convertStruct(t *Term, from, to types.Type) *Term {
	sf, okf := types.Unalias(from).Underlying().(*types.Struct)
	st, okt := types.Unalias(to).Underlying().(*types.Struct)
	if !okf || !okt || sf.NumFields() != st.NumFields() {
		e.Unsupported("change type %s -> %s", from, to)
	}
	fi, ti := structInfo(from), structInfo(to)
	args := make([]*Term, len(ti.Fields))
	for i := range ti.Fields {
		f := FieldSel(fi, t, i)
		if fi.Fields[i].Sort != ti.Fields[i].Sort {
			f = e.convertStruct(f, fi.Fields[i].GoT, ti.Fields[i].GoT)
		}
		args[i] = f
	}
	return Mk(ti.Ctor, ti.Sort, args...)
}

func (e *Exec) makeInterface(v Val, t types.Type) *Term {
	tag := IntLit(typeID(t))
	if p, ok := v.(*Ptr); ok {
		if (p.Kind == PHeap || p.Kind == PArr) && len(p.Path) == 0 {
			return MkIface(tag, p.Ref)
		}
		// interior / local pointer: copy-in/copy-out proxy object (synchronised around calls)
		if _, isArr := types.Unalias(p.Typ).Underlying().(*types.Array); isArr {
			e.Unsupported("pointer to embedded array boxed into an interface")
		}
		r := e.allocRef("proxy")
		n, hs := objHeap(p.Typ)
		e.heapSet(n, Store(e.heapGet(n, hs), r, e.toTerm(e.quietLoad(p), p.Typ)))
		e.root.proxies = append(e.root.proxies, &proxy{ref: r, p: p, typ: p.Typ, g: e.g})
		e.vc.Note("interior pointer passed through an interface in %s: modelled by copy-in/copy-out around calls", fnName(e.fn))
		return MkIface(tag, r)
	}
	if isInterface(t) {
		return v.(*Term)
	}
	tv := e.toTerm(v, t)
	switch types.Unalias(t).Underlying().(type) {
	case *types.Pointer, *types.Map, *types.Chan, *types.Signature:
		return MkIface(tag, tv)
	}
	r := e.allocRef("box")
	n := boxHeapName(t)
	s := ArraySort(SInt, sortOf(t))
	e.heapSet(n, Store(e.heapGet(n, s), r, tv))
	return MkIface(tag, r)
}

func (e *Exec) unbox(i *Term, t types.Type) Val {
	switch types.Unalias(t).Underlying().(type) {
	case *types.Pointer, *types.Map, *types.Chan, *types.Signature:
		return e.fromTerm(IfRef(i), t, true)
	}
	n := boxHeapName(t)
	s := ArraySort(SInt, sortOf(t))
	return e.fromTerm(Select(e.heapGet(n, s), IfRef(i)), t, true)
}

func (e *Exec) execTypeAssert(x *ssa.TypeAssert) Val {
	i := e.term(x.X)
	at := x.AssertedType
	var ok *Term
	var val Val
	if isInterface(at) {
		// assertion to an interface type: decided by the (uninterpreted) implements relation on the tag
		ok = And(Neq(IfTag(i), IntLit(0)), App("implements."+mangle(typeKey(at)), SBool, IfTag(i)))
		e.declareImplements(at)
		// the static type of X already implements at? then only nil-ness matters
		if xi, isI := types.Unalias(x.X.Type()).Underlying().(*types.Interface); isI {
			if ai, isA := types.Unalias(at).Underlying().(*types.Interface); isA && types.AssignableTo(x.X.Type(), at) {
				_ = xi
				_ = ai
				ok = Neq(IfTag(i), IntLit(0))
			}
		}
		val = i
	} else {
		ok = Eq(IfTag(i), IntLit(typeID(at)))
		val = e.unbox(i, at)
		if pv, isP := val.(*Ptr); isP && pv.Ref != nil {
			e.vc.Assume(e.g, Implies(ok, IntLt(IntLit(0), pv.Ref)))
			pv.NonNil = true
			e.vc.Trusted["a pointer held in an interface value is non-nil (typed nil pointers are not boxed)"] = true
		}
	}
	if x.CommaOk {
		okd := e.vc.Define("ok", ok)
		var v Val
		switch vv := val.(type) {
		case *Term:
			v = Ite(okd, vv, e.zeroVal(at))
		case *Ptr:
			np := *vv
			np.Ref = Ite(okd, vv.Ref, IntLit(0))
			v = &np
		}
		return Tuple{v, okd}
	}
	e.check("typeassert", ok, "type assertion may fail")
	return val
}

func (e *Exec) zeroVal(t types.Type) *Term { return zeroOf(t) }

func (e *Exec) declareImplements(at types.Type) {
	name := "implements." + mangle(typeKey(at))
	if e.tagFacts == nil {
		e.tagFacts = map[string]bool{}
	}
	if e.tagFacts[name] {
		return
	}
	e.tagFacts[name] = true
	e.vc.items = append(e.vc.items, Item{Raw: "(declare-fun " + name + " (Int) Bool)"})
}

func (e *Exec) execSlice(x *ssa.Slice) Val {
	var lo, hi, mx *Term
	if x.Low != nil {
		lo = e.idx64(x.Low)
	} else {
		lo = bv64zero
	}
	switch xt := types.Unalias(x.X.Type()).Underlying().(type) {
	case *types.Slice:
		s := e.term(x.X)
		if x.High != nil {
			hi = e.idx64(x.High)
		} else {
			hi = SlLen(s)
		}
		cp := SlCap(s)
		if x.Max != nil {
			mx = e.idx64(x.Max)
		} else {
			mx = cp
		}
		lo, hi, mx = e.vc.Define("lo", lo), e.vc.Define("hi", hi), e.vc.Define("mx", mx)
		goal := And(SGe(lo, bv64zero), SLe(lo, hi), SLe(hi, mx), SLe(mx, cp))
		e.check("slice", goal, "slice bounds out of range")
		res := MkSlice(SlRef(s), e.vc.Define("off", BVAdd(SlOff(s), lo)), BVSub(hi, lo), BVSub(mx, lo))
		if isByteType(xt.Elem()) && e.seqFacts() && !(lo.IsLit() && lo.Lit.Sign() == 0 && x.High == nil) {
			arr := e.vc.Define("slarr", e.backingCanon(s, xt.Elem()))
			whole := App("bseq.of", "BSeq", arr, SlOff(s), SlLen(s))
			part := App("bseq.of", "BSeq", arr, SlOff(res), SlLen(res))
			if lo.IsLit() && lo.Lit.Sign() == 0 {
				e.vc.Assume(e.g, Implies(SLe(hi, SlLen(s)), Eq(part, App("seqtrunc", "BSeq", whole, hi))))
			} else {
				e.vc.Assume(e.g, Implies(SLe(hi, SlLen(s)), Eq(part, App("seqsub", "BSeq", whole, lo, hi))))
			}
		}
		return res
	case *types.Basic: // string
		s := e.term(x.X)
		if x.High != nil {
			hi = e.idx64(x.High)
		} else {
			hi = StrLen(s)
		}
		lo, hi = e.vc.Define("lo", lo), e.vc.Define("hi", hi)
		e.check("slice", And(SGe(lo, bv64zero), SLe(lo, hi), SLe(hi, StrLen(s))), "string slice bounds out of range")
		return e.substr(s, lo, hi)
	case *types.Pointer:
		p, ok := e.val(x.X).(*Ptr)
		if !ok {
			e.Unsupported("slice of non-pointer")
		}
		arr := types.Unalias(xt.Elem()).Underlying().(*types.Array)
		if p.Kind != PArr {
			e.Unsupported("slicing an array embedded in a struct (interior pointer)")
		}
		e.nilCheck(p, "nil dereference (slice of array pointer)")
		n := BVLitI(arr.Len(), 64)
		if x.High != nil {
			hi = e.idx64(x.High)
		} else {
			hi = n
		}
		if x.Max != nil {
			mx = e.idx64(x.Max)
		} else {
			mx = n
		}
		e.check("slice", And(SGe(lo, bv64zero), SLe(lo, hi), SLe(hi, mx), SLe(mx, n)), "slice bounds out of range")
		return MkSlice(p.Ref, lo, BVSub(hi, lo), BVSub(mx, lo))
	}
	e.Unsupported("slice of %s", x.X.Type())
	return nil
}

func (e *Exec) substr(s, lo, hi *Term) *Term {
	if lo.IsLit() && lo.Lit.Sign() == 0 && same(hi, StrLen(s)) {
		return s
	}
	r := e.vc.Fresh("sub", SStr)
	e.vc.Assume(True, Eq(StrLen(r), BVSub(hi, lo)))
	e.vc.Assume(True, Eq(r, App("strsub", SStr, s, lo, hi)))
	k := Sym("k", BV(64))
	body := Implies(And(SGe(k, bv64zero), SLt(k, BVSub(hi, lo))), Eq(Select(StrArr(r), k), Select(StrArr(s), BVAdd(lo, k))))
	e.vc.Assume(True, Forall([][2]string{{"k", BV(64)}}, body, Select(StrArr(r), k)))
	return r
}

func (e *Exec) execMakeSlice(x *ssa.MakeSlice) Val {
	ln := e.vc.Define("len", e.idx64(x.Len))
	cp := e.vc.Define("cap", e.idx64(x.Cap))
	el := types.Unalias(x.Type()).Underlying().(*types.Slice).Elem()
	e.check("makesize", And(SGe(ln, bv64zero), SLe(ln, cp)), "make: negative length or len > cap")
	e.allocBound(cp, "make")
	// beyond 2^48 elements make panics or the process is out of memory: covered by the allocation bound
	// obligation where enabled; afterwards the address-space assumption applies
	e.vc.Assume(e.g, SLe(cp, maxLen))
	r := e.allocRef("mk")
	n, s := elemHeap(el)
	e.heapSet(n, Store(e.heapGet(n, s), r, ConstArr(ArraySort(BV(64), sortOf(el)), zeroOf(el))))
	if isByteType(el) && e.seqFacts() {
		e.vc.Assume(e.g, Eq(App("bseq.of", "BSeq", ConstArr(ArraySort(BV(64), BV(8)), BVLitI(0, 8)), bv64zero, ln), App("seqzeros", "BSeq", ln)))
	}
	return MkSlice(r, bv64zero, ln, cp)
}

// allocBound: resource obligation (allocation proportional to the size of the input), enabled per property:
// n <= 64*(sum of the lengths of byte/string inputs of the unit function) + 4096.
func (e *Exec) allocBound(n *Term, what string) {
	if !e.allocOn || e.inSize == nil {
		return
	}
	if n.IsLit() {
		if n.Lit.IsInt64() && n.Lit.Int64() <= 1<<20 {
			return
		}
	}
	// lengths of every byte string / slice the function has seen so far count as input size
	total := e.inSize
	seen := e.root.seenLens
	if len(seen) > 48 {
		seen = seen[len(seen)-48:]
	}
	dedup := map[string]bool{}
	for _, l := range seen {
		if !dedup[l.String()] {
			dedup[l.String()] = true
			// values seen on other paths carry no invariant here: count only non-negative lengths
			total = BVAdd(total, Ite(SGe(l, bv64zero), Ite(SLe(l, maxLen), l, bv64zero), bv64zero))
		}
	}
	bound := BVAdd(BVMul(BVLitI(64, 64), total), BVLitI(4096, 64))
	e.check("alloc", SLe(n, bound), what+": allocation not bounded by 64*|input|+4096")
}

func (e *Exec) execLookup(x *ssa.Lookup) Val {
	if isString(x.X.Type()) {
		s := e.term(x.X)
		i := e.idx64(x.Index)
		e.boundsCheck(i, StrLen(s), "string index out of range")
		return Select(StrArr(s), i)
	}
	m := types.Unalias(x.X.Type()).Underlying().(*types.Map)
	mr := e.term(x.X)
	k := e.mapKey(x.Index, m)
	mp, mv := mapHeapNames(m)
	ps := ArraySort(SInt, ArraySort(sortOf(m.Key()), SBool))
	vs := ArraySort(SInt, ArraySort(sortOf(m.Key()), sortOf(m.Elem())))
	e.guardedAccess(mp, false, "look-up")
	present := e.vc.Define("ok", And(Neq(mr, IntLit(0)), Select(Select(e.heapGet(mp, ps), mr), k)))
	raw := Select(Select(e.heapGet(mv, vs), mr), k)
	val := e.vc.Define("mv", Ite(present, raw, zeroOf(m.Elem())))
	if hasInv(m.Elem()) {
		e.vc.Assume(e.g, invOf(m.Elem(), val, e.st.ac))
	}
	v := e.fromTerm(val, m.Elem(), false)
	if pv, ok := v.(*Ptr); ok {
		e.vc.Assume(e.g, Implies(present, IntLt(IntLit(0), pv.Ref)))
		e.vc.Trusted["pointer values stored in maps are non-nil"] = true
	}
	if x.CommaOk {
		return Tuple{v, present}
	}
	return v
}

func (e *Exec) mapKey(v ssa.Value, m *types.Map) *Term {
	k := e.term(v)
	if isInterface(m.Key()) {
		e.vc.Note("map with interface keys in %s: keys compared by dynamic type and reference", fnName(e.fn))
	}
	return k
}

func (e *Exec) execMapUpdate(x *ssa.MapUpdate) {
	m := types.Unalias(x.Map.Type()).Underlying().(*types.Map)
	mr := e.term(x.Map)
	e.check("nilmap", Neq(mr, IntLit(0)), "assignment to entry in nil map")
	k := e.mapKey(x.Key, m)
	v := e.toTerm(e.val(x.Value), m.Elem())
	mp, mv := mapHeapNames(m)
	ps := ArraySort(SInt, ArraySort(sortOf(m.Key()), SBool))
	vs := ArraySort(SInt, ArraySort(sortOf(m.Key()), sortOf(m.Elem())))
	e.guardedAccess(mp, true, "update")
	hp, hv := e.heapGet(mp, ps), e.heapGet(mv, vs)
	e.heapSet(mp, Store(hp, mr, e.vc.Define("mp", Store(Select(hp, mr), k, True))))
	e.heapSet(mv, Store(hv, mr, e.vc.Define("mv", Store(Select(hv, mr), k, e.vc.Define("v", v)))))
}

func (e *Exec) execNext(x *ssa.Next) Val {
	it, ok := e.val(x.Iter).(*IterVal)
	if !ok {
		e.Unsupported("next on non-iterator")
	}
	okb := e.vc.Fresh("more", SBool)
	if x.IsString {
		i := e.vc.Fresh("ri", BV(64))
		s := it.X.(*Term)
		e.vc.Assume(True, Implies(okb, And(SGe(i, bv64zero), SLt(i, StrLen(s)))))
		r := e.vc.Fresh("rune", BV(32))
		e.vc.Assume(True, And(SGe(r, BVLitI(0, 32)), SLe(r, BVLitI(0x10FFFF, 32))))
		// ASCII bytes decode to themselves
		e.vc.Assume(True, Implies(And(okb, ULt(Select(StrArr(s), i), BVLitI(0x80, 8))), Eq(r, Resize(Select(StrArr(s), i), 32, false))))
		return Tuple{okb, i, r}
	}
	m := types.Unalias(it.T).Underlying().(*types.Map)
	mr := it.X.(*Term)
	k := e.havocTerm("key", m.Key())
	mp, mv := mapHeapNames(m)
	ps := ArraySort(SInt, ArraySort(sortOf(m.Key()), SBool))
	vs := ArraySort(SInt, ArraySort(sortOf(m.Key()), sortOf(m.Elem())))
	e.guardedAccess(mp, false, "iteration")
	e.vc.Assume(True, Implies(okb, And(Neq(mr, IntLit(0)), Select(Select(e.heapGet(mp, ps), mr), k))))
	val := e.vc.Define("mv", Select(Select(e.heapGet(mv, vs), mr), k))
	if hasInv(m.Elem()) {
		e.vc.Assume(True, invOf(m.Elem(), val, e.st.ac))
	}
	mvv := e.fromTerm(val, m.Elem(), false)
	if pv, ok := mvv.(*Ptr); ok {
		pv.NonNil = true
		e.vc.Assume(True, Implies(okb, IntLt(IntLit(0), pv.Ref)))
		e.vc.Trusted["pointer values stored in maps are non-nil"] = true
	}
	return Tuple{okb, e.fromTerm(k, m.Key(), false), mvv}
}
