package main

// Spec functions (/verif/spec/*.smt2): SMT-LIB fragments split into chunks; a chunk is included in a
// query when one of the symbols it declares/defines is used (transitively).

import (
	"os"
	"path/filepath"
	"regexp"
	"sort"
	"strings"
)

type SpecFn struct {
	Name string
	Args []string // sorts
	Res  string
}

type SpecChunk struct {
	With     []string // ";; include-with: sym ..." : include this chunk whenever one of these symbols is used
	File     string
	Text     string
	Provides []string
	Tokens   map[string]bool
	Axiom    bool // contains an (assert ...) : an assumption
}

type SpecLib struct {
	Chunks []*SpecChunk
	ByName map[string]*SpecChunk
	Fns    map[string]*SpecFn
}

var declRe = regexp.MustCompile(`\((declare-fun|define-fun|define-fun-rec|declare-const|declare-sort)\s+([^\s()]+)`)

func LoadSpecs(dir string) (*SpecLib, error) {
	lib := &SpecLib{ByName: map[string]*SpecChunk{}, Fns: map[string]*SpecFn{}}
	files, _ := filepath.Glob(filepath.Join(dir, "*.smt2"))
	sort.Strings(files)
	for _, f := range files {
		b, err := os.ReadFile(f)
		if err != nil {
			return nil, err
		}
		// chunks are separated by blank lines
		for _, part := range strings.Split(string(b), "\n\n") {
			if strings.TrimSpace(part) == "" {
				continue
			}
			// drop comment-only chunks
			code := false
			for _, l := range strings.Split(part, "\n") {
				l = strings.TrimSpace(l)
				if l != "" && !strings.HasPrefix(l, ";") {
					code = true
				}
			}
			if !code {
				continue
			}
			ch := &SpecChunk{File: filepath.Base(f), Text: part, Tokens: map[string]bool{}}
			for _, l := range strings.Split(part, "\n") {
				if strings.HasPrefix(strings.TrimSpace(l), ";; include-with:") {
					ch.With = append(ch.With, strings.Fields(strings.TrimPrefix(strings.TrimSpace(l), ";; include-with:"))...)
				}
			}
			for _, m := range declRe.FindAllStringSubmatch(part, -1) {
				ch.Provides = append(ch.Provides, m[2])
				lib.ByName[m[2]] = ch
			}
			stripped := stripComments(part)
			for _, t := range tokenize(stripped) {
				ch.Tokens[t] = true
			}
			ch.Axiom = strings.Contains(stripped, "(assert")
			lib.parseSigs(stripped)
			lib.Chunks = append(lib.Chunks, ch)
		}
	}
	return lib, nil
}

func stripComments(s string) string {
	var out []string
	for _, l := range strings.Split(s, "\n") {
		if i := strings.Index(l, ";"); i >= 0 {
			l = l[:i]
		}
		out = append(out, l)
	}
	return strings.Join(out, "\n")
}

// parseSigs extracts signatures of declare-fun / define-fun / declare-const.
func (lib *SpecLib) parseSigs(text string) {
	i := 0
	for {
		j := strings.Index(text[i:], "(de")
		if j < 0 {
			return
		}
		i += j
		sx, _ := splitFirstSexp(text[i:])
		i += 3
		parts := sexpChildren(sx)
		if len(parts) < 3 {
			continue
		}
		switch parts[0] {
		case "declare-const":
			lib.Fns[parts[1]] = &SpecFn{Name: parts[1], Res: normSort(parts[2])}
		case "declare-fun":
			if len(parts) >= 4 {
				fn := &SpecFn{Name: parts[1], Res: normSort(parts[3])}
				for _, a := range sexpChildren(parts[2]) {
					fn.Args = append(fn.Args, normSort(a))
				}
				lib.Fns[parts[1]] = fn
			}
		case "define-fun", "define-fun-rec":
			if len(parts) >= 5 {
				fn := &SpecFn{Name: parts[1], Res: normSort(parts[3])}
				for _, a := range sexpChildren(parts[2]) {
					av := sexpChildren(a)
					if len(av) == 2 {
						fn.Args = append(fn.Args, normSort(av[1]))
					}
				}
				lib.Fns[parts[1]] = fn
			}
		}
	}
}

func normSort(s string) string { return strings.Join(strings.Fields(s), " ") }

// sexpChildren splits "(a (b c) d)" into ["a","(b c)","d"].
func sexpChildren(s string) []string {
	s = strings.TrimSpace(s)
	if len(s) < 2 || s[0] != '(' {
		return nil
	}
	s = s[1 : len(s)-1]
	var out []string
	for {
		s = strings.TrimSpace(s)
		if s == "" {
			return out
		}
		a, rest := splitFirstSexp(s)
		out = append(out, a)
		s = rest
	}
}

// Select returns the text of all chunks needed for the used symbols, in file order, and struct sorts they mention.
func (lib *SpecLib) Select(used map[string]bool) (string, []string) {
	need := map[*SpecChunk]bool{}
	var work []*SpecChunk
	add := func(c *SpecChunk) {
		if c != nil && !need[c] {
			need[c] = true
			work = append(work, c)
		}
	}
	for u := range used {
		add(lib.ByName[u])
	}
	for {
		for len(work) > 0 {
			c := work[len(work)-1]
			work = work[:len(work)-1]
			for t := range c.Tokens {
				add(lib.ByName[t])
			}
		}
		// chunks that ride along with a symbol
		progress := false
		for _, c := range lib.Chunks {
			if need[c] {
				continue
			}
			for _, w := range c.With {
				if used[w] {
					add(c)
					progress = true
					break
				}
				if wc := lib.ByName[w]; wc != nil && need[wc] {
					add(c)
					progress = true
					break
				}
			}
		}
		if !progress && len(work) == 0 {
			break
		}
	}
	var sb strings.Builder
	sorts := map[string]bool{}
	for _, c := range lib.Chunks {
		if need[c] {
			sb.WriteString(c.Text + "\n")
			for t := range c.Tokens {
				if strings.HasPrefix(t, "T_") {
					if i := strings.Index(t, "."); i > 0 && structInfoBySort(t[:i]) != nil {
						sorts[t[:i]] = true
					} else if structInfoBySort(t) != nil {
						sorts[t] = true
					}
				}
				if strings.HasPrefix(t, "mk.T_") {
					sorts[t[3:]] = true
				}
			}
		}
	}
	var ss []string
	for s := range sorts {
		ss = append(ss, s)
	}
	sort.Strings(ss)
	return sb.String(), ss
}

// AxiomsUsed lists chunk headers containing assert (assumptions) among the needed chunks.
func (lib *SpecLib) AxiomsUsed(used map[string]bool) []string {
	var out []string
	for _, c := range lib.Chunks {
		if !c.Axiom {
			continue
		}
		for _, p := range c.Provides {
			if used[p] {
				out = append(out, c.File+": "+firstLines(c.Text, 1))
				break
			}
		}
	}
	return out
}
