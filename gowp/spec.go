package main

// Contracts at work: calls by contract, loop invariants and variants (user-written and inferred),
// postconditions and frames at function exit.

import (
	"fmt"
	"go/ast"
	"go/types"
	"sort"
	"strings"

	"golang.org/x/tools/go/ssa"
)

// ---------- name resolution for loop invariants ----------

// loopLookup resolves a source-level name at the end of a loop header block.
// returnLookup: a local variable named in a postcondition. Only single-assignment locals are accepted (every debug
// reference of the name denotes the same SSA value), so the name means the same value wherever it is defined.
func (e *Exec) returnLookup(ret *ssa.BasicBlock) func(name string) (CV, bool) {
	fn := e.fn
	return func(name string) (CV, bool) {
		if ret == nil {
			return CV{}, false
		}
		var def ssa.Value
		for _, b := range fn.Blocks {
			for _, in := range b.Instrs {
				d, ok := in.(*ssa.DebugRef)
				if !ok || d.IsAddr {
					continue
				}
				id, ok := d.Expr.(*ast.Ident)
				if !ok || id.Name != name {
					continue
				}
				if def != nil && def != d.X {
					return CV{}, false
				}
				def = d.X
			}
		}
		if def == nil {
			return CV{}, false
		}
		// When the definition does not dominate the return site the name denotes the value on the paths through the
		// definition and an arbitrary value elsewhere: the postcondition has to guard its use (e.g. by a ghost that
		// only changes on those paths).
		if _, has := e.regs[def]; !has {
			if _, isC := def.(*ssa.Const); !isC {
				return CV{}, false
			}
		}
		return CV{V: e.val(def), T: def.Type()}, true
	}
}

func (e *Exec) loopLookup(lp *Loop) func(name string) (CV, bool) {
	fn := e.fn
	return func(name string) (CV, bool) {
		// phis of the header named after the variable
		for _, in := range lp.Header.Instrs {
			if phi, ok := in.(*ssa.Phi); ok && phi.Comment == name {
				if v, ok := e.regs[phi]; ok {
					return CV{V: v, T: phi.Type()}, true
				}
			}
		}
		// a value of that name defined in the header block itself (e.g. the range index i = phi + 1)
		for _, in := range lp.Header.Instrs {
			if d, ok := in.(*ssa.DebugRef); ok && !d.IsAddr {
				if id, ok := d.Expr.(*ast.Ident); ok && id.Name == name {
					if v, ok := e.regs[d.X]; ok {
						return CV{V: v, T: d.X.Type()}, true
					}
				}
			}
		}
		// allocs (address-taken locals and struct locals)
		var found *ssa.Alloc
		for _, b := range fn.Blocks {
			for _, in := range b.Instrs {
				if a, ok := in.(*ssa.Alloc); ok && a.Comment == name {
					if _, has := e.regs[a]; has {
						found = a
					}
				}
			}
		}
		if found != nil {
			p := e.regs[found].(*Ptr)
			return CV{V: e.quietLoad(p), T: deref(found.Type())}, true
		}
		// debug references: identifier -> value; prefer the one in the header block, then dominating ones
		var best ssa.Value
		for _, b := range fn.Blocks {
			for _, in := range b.Instrs {
				d, ok := in.(*ssa.DebugRef)
				if !ok {
					continue
				}
				id, ok := d.Expr.(*ast.Ident)
				if !ok || id.Name != name || d.IsAddr {
					continue
				}
				if _, has := e.regs[d.X]; !has {
					if _, isC := d.X.(*ssa.Const); !isC {
						continue
					}
				}
				var db *ssa.BasicBlock
				if vi, ok := d.X.(ssa.Instruction); ok {
					db = vi.Block()
				}
				if db == lp.Header {
					best = d.X
					break
				}
				if db == nil || (db.Dominates(lp.Header) && !lp.Blocks[db]) {
					if best == nil {
						best = d.X
					}
				}
			}
		}
		if best != nil {
			return CV{V: e.val(best), T: best.Type()}, true
		}
		// parameters (not reassigned inside the loop)
		for _, p := range fn.Params {
			if p.Name() == name {
				if v, ok := e.regs[p]; ok {
					return CV{V: v, T: p.Type()}, true
				}
			}
		}
		for _, fv := range fn.FreeVars {
			if fv.Name() == name {
				if v, ok := e.regs[fv]; ok {
					p, isP := v.(*Ptr)
					if isP {
						return CV{V: e.quietLoad(p), T: deref(fv.Type())}, true
					}
				}
			}
		}
		return CV{}, false
	}
}

func (e *Exec) quietLoad(p *Ptr) Val {
	s := e.silent
	e.silent = true
	defer func() { e.silent = s }()
	np := *p
	np.NonNil = true
	return e.load(&np)
}

func (e *Exec) paramEnv(st *State, old *State) *CEnv {
	env := &CEnv{e: e, vars: map[string]CV{}, st: st, old: old}
	if e.fn.Pkg != nil {
		env.pkg = e.fn.Pkg.Pkg
	} else if e.fn.Parent() != nil && e.fn.Parent().Pkg != nil {
		env.pkg = e.fn.Parent().Pkg.Pkg
	}
	if e.con != nil {
		all := append([]*ssa.Parameter(nil), e.fn.Params...)
		for i, p := range all {
			if i < len(e.con.Params) {
				if i == 0 && e.ifaceCon != nil {
					// the receiver seen through the interface: only its dynamic type is known to the contract
					ref := IntLit(1)
					if ptr, ok := e.params[0].(*Ptr); ok && ptr.Ref != nil {
						ref = ptr.Ref
					}
					env.vars[e.con.Params[0]] = CV{V: MkIface(IntLit(typeID(p.Type())), ref), T: e.ifaceCon}
					continue
				}
				env.vars[e.con.Params[i]] = CV{V: e.params[i], T: p.Type()}
			}
		}
		// free variables of closures follow the parameters
		for j, fv := range e.fn.FreeVars {
			k := len(all) + j
			if k < len(e.con.Params) && k < len(e.params) {
				env.vars[e.con.Params[k]] = CV{V: e.params[k], T: fv.Type()}
			}
		}
	}
	return env
}

func (e *Exec) loopEnv(lp *Loop) *CEnv {
	env := e.paramEnv(e.st, e.st0)
	env.lookup = e.loopLookup(lp)
	return env
}

func (e *Exec) loopName(lp *Loop) string { return fmt.Sprintf("loop%d", lp.Ordinal) }

func (e *Exec) checkInvariants(lp *Loop, phase string) {
	if e.silent {
		// probes run silently for instruction obligations but invariants are real obligations
	}
	env := e.loopEnv(lp)
	if lp.Spec != nil {
		for k, inv := range lp.Spec.Invariants {
			t, err := env.EvalBool(inv.E)
			name := fmt.Sprintf("%s.inv[%d].%s", e.loopName(lp), k, phase)
			if err != nil {
				e.vc.Oblige("loop", name, "cannot evaluate invariant "+inv.Text+": "+err.Error(), inv.Line, e.g, False, nil).Status = "unknown"
				continue
			}
			e.vc.ObligeAll("loop", name, "invariant "+inv.Text+" ("+phase+") "+inv.Line, inv.Line, e.g, t, e.root.inputs)
		}
	}
	for _, c := range e.loopCands(lp) {
		if e.opts.Disabled[c.Key] {
			continue
		}
		t := c.Eval(e)
		if t == nil {
			continue
		}
		o := e.vc.Oblige("cand", c.Key+"."+phase, "inferred invariant "+c.Desc+" ("+phase+")", e.P.posString(lp.Header.Instrs[0].Pos()), e.g, t, nil)
		e.root.candObls[c.Key] = append(e.root.candObls[c.Key], o)
	}
}

func (e *Exec) assumeInvariants(lp *Loop) {
	env := e.loopEnv(lp)
	if lp.Spec != nil {
		for _, inv := range lp.Spec.Invariants {
			t, err := env.EvalBool(inv.E)
			if err == nil {
				e.vc.Assume(e.g, t)
			}
		}
	}
	for _, c := range e.loopCands(lp) {
		if e.opts.Disabled[c.Key] {
			continue
		}
		if t := c.Eval(e); t != nil {
			e.vc.Assume(e.g, t)
		}
	}
}

func (e *Exec) evalVariants(lp *Loop) []*Term {
	var out []*Term
	env := e.loopEnv(lp)
	if lp.Spec != nil && len(lp.Spec.Decreases) > 0 {
		for _, d := range lp.Spec.Decreases {
			t, err := env.EvalTerm(d.E)
			if err != nil {
				e.vc.Oblige("loop", e.loopName(lp)+".decreases", "cannot evaluate variant "+d.Text+": "+err.Error(), d.Line, e.g, False, nil).Status = "unknown"
				continue
			}
			out = append(out, e.vc.Define("var", t))
		}
		return out
	}
	if v := e.autoVariant(lp); v != nil {
		out = append(out, e.vc.Define("var", v))
	}
	return out
}

// autoVariant infers a variant from the header's exit test  a < b, a <= b, a > b, a >= b, a != b(with unit step unknown -> no).
func (e *Exec) autoVariant(lp *Loop) *Term {
	h := lp.Header
	iff, ok := h.Instrs[len(h.Instrs)-1].(*ssa.If)
	if !ok {
		return nil
	}
	bo, ok := iff.Cond.(*ssa.BinOp)
	if !ok || !isInteger(bo.X.Type()) {
		return nil
	}
	inLoopOnTrue := lp.Blocks[h.Succs[0]]
	a, okA := e.regs[bo.X]
	b, okB := e.regs[bo.Y]
	if c, isC := bo.X.(*ssa.Const); isC {
		a, okA = e.constVal(c), true
	}
	if c, isC := bo.Y.(*ssa.Const); isC {
		b, okB = e.constVal(c), true
	}
	if !okA || !okB {
		return nil
	}
	at, bt := Resize(a.(*Term), 64, isSigned(bo.X.Type())), Resize(b.(*Term), 64, isSigned(bo.Y.Type()))
	op := bo.Op.String()
	if !inLoopOnTrue {
		switch op {
		case "<":
			op = ">="
		case "<=":
			op = ">"
		case ">":
			op = "<="
		case ">=":
			op = "<"
		default:
			return nil
		}
	}
	switch op {
	case "<":
		return BVSub(bt, at)
	case "<=":
		return BVAdd(BVSub(bt, at), BVLitI(1, 64))
	case ">":
		return BVSub(at, bt)
	case ">=":
		return BVAdd(BVSub(at, bt), BVLitI(1, 64))
	}
	return nil
}

func (e *Exec) checkVariants(lp *Loop) {
	if lp.MapRange {
		return
	}
	name := e.loopName(lp) + ".decreases"
	pos := e.P.posString(instrPos(lp.Header.Instrs[len(lp.Header.Instrs)-1]))
	if len(lp.varAtHdr) == 0 {
		o := e.vc.Oblige("term", name, "loop has no variant (no decreases clause and none inferred) @ "+pos, pos, e.g, False, nil)
		o.Status = "unknown"
		o.Raw = "no variant"
		return
	}
	now := e.evalVariantsQuiet(lp)
	if len(now) != len(lp.varAtHdr) {
		return
	}
	// lexicographic decrease, each component bounded below by 0 at the header
	var dec *Term = False
	eqPrefix := True
	for i := range now {
		dec = Or(dec, And(eqPrefix, SLt(now[i], lp.varAtHdr[i]), SGe(lp.varAtHdr[i], bv64zero)))
		eqPrefix = And(eqPrefix, Eq(now[i], lp.varAtHdr[i]))
	}
	e.vc.Oblige("term", name, "variant decreases and is bounded below @ "+pos, pos, e.g, dec, e.root.inputs)
}

func (e *Exec) evalVariantsQuiet(lp *Loop) []*Term {
	var out []*Term
	env := e.loopEnv(lp)
	if lp.Spec != nil && len(lp.Spec.Decreases) > 0 {
		for _, d := range lp.Spec.Decreases {
			t, err := env.EvalTerm(d.E)
			if err != nil {
				return nil
			}
			out = append(out, t)
		}
		return out
	}
	if v := e.autoVariant(lp); v != nil {
		out = append(out, v)
	}
	return out
}

// ---------- inferred invariants (Houdini candidates) ----------

func (e *Exec) loopCands(lp *Loop) []*Cand {
	if e.opts.NoAuto {
		return nil
	}
	if lp.candsOn != nil {
		return lp.candsOn
	}
	h := lp.Header
	var cands []*Cand
	key := func(s string) string { return fmt.Sprintf("L%d:%s", h.Index, s) }
	// loop-invariant slices / strings used inside the loop
	type lenSrc struct {
		v    ssa.Value
		desc string
	}
	var lens []lenSrc
	seen := map[ssa.Value]bool{}
	addLen := func(v ssa.Value) {
		if seen[v] {
			return
		}
		switch types.Unalias(v.Type()).Underlying().(type) {
		case *types.Slice:
		case *types.Basic:
			if !isString(v.Type()) {
				return
			}
		default:
			return
		}
		if in, ok := v.(ssa.Instruction); ok {
			if lp.Blocks[in.Block()] {
				return
			}
		}
		if _, isC := v.(*ssa.Const); isC {
			return
		}
		seen[v] = true
		lens = append(lens, lenSrc{v, v.Name()})
	}
	for b := range lp.Blocks {
		for _, in := range b.Instrs {
			switch x := in.(type) {
			case *ssa.IndexAddr:
				addLen(x.X)
			case *ssa.Slice:
				addLen(x.X)
			case *ssa.Lookup:
				addLen(x.X)
			case *ssa.Index:
				addLen(x.X)
			case *ssa.Call:
				if b, ok := x.Call.Value.(*ssa.Builtin); ok && b.Name() == "len" {
					addLen(x.Call.Args[0])
				}
			}
		}
	}
	// len values computed before the loop (rangeindex: t5 = len(t4))
	sort.Slice(lens, func(i, j int) bool { return lens[i].desc < lens[j].desc })
	for _, in := range h.Instrs {
		phi, ok := in.(*ssa.Phi)
		if !ok {
			break
		}
		if !isInteger(phi.Type()) {
			continue
		}
		signed := isSigned(phi.Type())
		entry := lp.phiEntry[phi]
		et, isT := entry.(*Term)
		if isT {
			cands = append(cands, &Cand{Key: key(phi.Name() + ">=entry"), Desc: phi.Comment + " >= its entry value", Eval: func(e *Exec) *Term {
				v, ok := e.regs[phi].(*Term)
				if !ok {
					return nil
				}
				if signed {
					return SGe(v, et)
				}
				return UGe(v, et)
			}})
			cands = append(cands, &Cand{Key: key(phi.Name() + "<=entry"), Desc: phi.Comment + " <= its entry value", Eval: func(e *Exec) *Term {
				v, ok := e.regs[phi].(*Term)
				if !ok {
					return nil
				}
				if signed {
					return SLe(v, et)
				}
				return ULe(v, et)
			}})
		}
		for _, ls := range lens {
			ls := ls
			cands = append(cands, &Cand{Key: key(phi.Name() + "<=len(" + ls.desc + ")"), Desc: phi.Comment + " <= len(" + ls.desc + ")", Eval: func(e *Exec) *Term {
				v, ok := e.regs[phi].(*Term)
				if !ok {
					return nil
				}
				sv, ok := e.regs[ls.v]
				if !ok {
					return nil
				}
				l := e.lenOf(sv, ls.v.Type())
				v64 := Resize(v, 64, signed)
				return And(SGe(v64, BVLitI(-1, 64)), SLe(v64, l))
			}})
			cands = append(cands, &Cand{Key: key(phi.Name() + "<len(" + ls.desc + ")"), Desc: phi.Comment + " < len(" + ls.desc + ")", Eval: func(e *Exec) *Term {
				v, ok := e.regs[phi].(*Term)
				if !ok {
					return nil
				}
				sv, ok := e.regs[ls.v]
				if !ok {
					return nil
				}
				l := e.lenOf(sv, ls.v.Type())
				v64 := Resize(v, 64, signed)
				return And(SGe(v64, BVLitI(-1, 64)), SLt(v64, l))
			}})
		}
	}
	// bounds taken from the header's exit test: phi <= B and phi >= B for a loop-invariant operand B
	if iff, ok := h.Instrs[len(h.Instrs)-1].(*ssa.If); ok {
		if bo, ok := iff.Cond.(*ssa.BinOp); ok && isInteger(bo.X.Type()) {
			for _, opnd := range []ssa.Value{bo.X, bo.Y} {
				opnd := opnd
				if in, ok := opnd.(ssa.Instruction); ok && lp.Blocks[in.Block()] {
					continue
				}
				for _, in := range h.Instrs {
					phi, ok := in.(*ssa.Phi)
					if !ok {
						break
					}
					if !isInteger(phi.Type()) || sortOf(phi.Type()) != sortOf(opnd.Type()) {
						continue
					}
					signed := isSigned(phi.Type())
					for _, rel := range []string{"<=", ">="} {
						rel := rel
						cands = append(cands, &Cand{Key: key(phi.Name() + rel + "bound(" + opnd.Name() + ")"), Desc: phi.Comment + " " + rel + " loop bound " + opnd.Name(), Eval: func(e *Exec) *Term {
							v, ok := e.regs[phi].(*Term)
							if !ok {
								return nil
							}
							var bt *Term
							if c, isC := opnd.(*ssa.Const); isC {
								bt, _ = e.constVal(c).(*Term)
							} else if bv, ok := e.regs[opnd].(*Term); ok {
								bt = bv
							}
							if bt == nil {
								return nil
							}
							switch {
							case rel == "<=" && signed:
								return SLe(v, bt)
							case rel == "<=":
								return ULe(v, bt)
							case signed:
								return SGe(v, bt)
							}
							return UGe(v, bt)
						}})
					}
				}
			}
		}
	}
	// slice-typed phis (e.g. accumulating appends): nothing inferred.
	// heap-allocated integer locals modified in the loop (e.g. a cursor passed by address to readers)
	for _, b := range e.fn.Blocks {
		if lp.Blocks[b] {
			continue
		}
		for _, in := range b.Instrs {
			a, ok := in.(*ssa.Alloc)
			if !ok || !a.Heap || !isInteger(deref(a.Type())) || !b.Dominates(h) {
				continue
			}
			signed := isSigned(deref(a.Type()))
			for _, ls := range lens {
				ls := ls
				cands = append(cands, &Cand{Key: key("*" + a.Comment + "<=len(" + ls.desc + ")"), Desc: a.Comment + " in [0, len(" + ls.desc + ")]", Eval: func(e *Exec) *Term {
					p, ok := e.regs[a].(*Ptr)
					if !ok {
						return nil
					}
					sv, ok := e.regs[ls.v]
					if !ok {
						return nil
					}
					v, ok := e.quietLoad(p).(*Term)
					if !ok {
						return nil
					}
					v64 := Resize(v, 64, signed)
					return And(SGe(v64, bv64zero), SLe(v64, e.lenOf(sv, ls.v.Type())))
				}})
			}
		}
	}
	// lengths of loop-carried slices never shrink below entry? (not inferred)
	lp.candsOn = cands
	return cands
}

// ---------- calls by contract ----------

func (e *Exec) callEnv(ct *Contract, callee *ssa.Function, args []Val, sig *types.Signature, st, old *State) *CEnv {
	env := &CEnv{e: e, vars: map[string]CV{}, st: st, old: old}
	if callee != nil && callee.Pkg != nil {
		env.pkg = callee.Pkg.Pkg
	} else if callee != nil && callee.Parent() != nil && callee.Parent().Pkg != nil {
		env.pkg = callee.Parent().Pkg.Pkg
	} else if e.fn.Pkg != nil {
		env.pkg = e.fn.Pkg.Pkg
	}
	// parameter types: receiver first
	var pts []types.Type
	if callee != nil {
		for _, p := range callee.Params {
			pts = append(pts, p.Type())
		}
		for _, fv := range callee.FreeVars {
			pts = append(pts, fv.Type())
		}
	} else {
		if sig.Recv() != nil {
			pts = append(pts, sig.Recv().Type())
		}
		for i := 0; i < sig.Params().Len(); i++ {
			pts = append(pts, sig.Params().At(i).Type())
		}
	}
	for i, n := range ct.Params {
		if i < len(args) && i < len(pts) {
			env.vars[n] = CV{V: args[i], T: pts[i]}
		}
	}
	return env
}

func (e *Exec) callByContract(ct *Contract, callee *ssa.Function, args []Val, sig *types.Signature, in ssa.Instruction) Val {
	name := ct.Fn
	if ct.Model || ct.Trusted != "" {
		e.vc.Trusted[fmt.Sprintf("%s (%s)", name, orStr(ct.Trusted, "model"))] = true
	}
	pre := e.st
	preItems := len(e.vc.items)
	var calleeNows []*Term
	env := e.callEnv(ct, callee, args, sig, pre, nil)
	env.calleeNows = &calleeNows
	// 1. preconditions
	for k, rq := range ct.Requires {
		t, err := env.EvalBool(rq.E)
		if err != nil {
			if !e.silent {
				o := e.vc.Oblige("requires", fmt.Sprintf("%s[%d]", name, k), "cannot evaluate precondition "+rq.Text+": "+err.Error(), e.P.posString(instrPos(in)), e.g, False, nil)
				o.Status = "unknown"
			}
			continue
		}
		if !e.silent {
			line := e.P.srcLine(instrPos(in))
			e.vc.ObligeAll("requires", fmt.Sprintf("%s[%d]@%s", name, k, trunc(line, 50)), "precondition of "+name+": "+rq.Text+" @ "+e.P.posString(instrPos(in)), e.P.posString(instrPos(in)), e.g, t, e.root.inputs)
		}
		e.vc.Assume(e.g, t)
	}
	// 1a. locks the callee takes itself: not held by the caller; the guarded state is arbitrary at the callee's
	// acquisition, which is also the reference point of atlock() in its postconditions
	acquired := false
	for _, aq := range ct.Acquires {
		var lp *Ptr
		func() {
			defer func() { recover() }()
			lp = env.lockPtr(aq.E)
		}()
		gi := (*GuardInfo)(nil)
		if lp != nil {
			gi = e.guardOfLock(lp)
		}
		if lp == nil || gi == nil {
			if !e.silent {
				o := e.vc.Oblige("lock", "acquires:"+name, "cannot resolve the lock of the acquires clause "+aq.Text, e.P.posString(instrPos(in)), e.g, False, nil)
				o.Status = "unknown"
			}
			continue
		}
		k := lockKey(lp)
		cur := e.heldGet(k, gi)
		if e.root.heldInfo == nil {
			e.root.held0 = map[string]*Term{}
			e.root.heldInfo = map[string]*GuardInfo{}
		}
		e.root.heldInfo[k] = gi
		e.check("lock", Eq(cur, IntLit(0)), "lock "+gi.TypeName+"."+gi.Field+" is not held when calling "+name+", which acquires it")
		e.havocGuarded(lp, gi)
		acquired = true
	}
	if acquired {
		snap := e.st.clone()
		snap.atlock = nil
		e.st.atlock = snap
		pre = e.st
		env = e.callEnv(ct, callee, args, sig, pre, nil)
		env.calleeNows = &calleeNows
	}
	// 1b. recursion: the function's variant decreases and is bounded below
	topExec := e
	if e.top != nil {
		topExec = e.top
	}
	if callee != nil && callee == topExec.fn && !e.silent {
		if len(ct.Decreases) == 0 {
			o := e.vc.Oblige("term", "recursion", "recursive call without a decreases clause", e.P.posString(instrPos(in)), e.g, False, nil)
			o.Status = "unknown"
		}
		for k, d := range ct.Decreases {
			mNew, err1 := env.EvalTerm(d.E)
			mOld, err2 := topExec.paramEnv(e.st, nil).EvalTerm(d.E)
			if err1 != nil || err2 != nil {
				o := e.vc.Oblige("term", fmt.Sprintf("recursion[%d]", k), "cannot evaluate variant "+d.Text, e.P.posString(instrPos(in)), e.g, False, nil)
				o.Status = "unknown"
				continue
			}
			a, b := mNew, mOld
			if a.Sort != BV(64) || b.Sort != BV(64) {
				o := e.vc.Oblige("term", fmt.Sprintf("recursion[%d]", k), "variant is not an int: "+d.Text, e.P.posString(instrPos(in)), e.g, False, nil)
				o.Status = "unknown"
				continue
			}
			e.vc.Oblige("term", fmt.Sprintf("recursion[%d]", k), "variant "+d.Text+" decreases at the recursive call and is non-negative @ "+e.P.posString(instrPos(in)),
				e.P.posString(instrPos(in)), e.g, And(SLt(a, b), bvCmp("bvsle", BVLitI(0, 64), a)), e.root.inputs)
		}
	}
	// 2. frame
	e.st = pre.clone()
	if ct.HasFrame() {
		// allocation may have happened (also in a pure function: fresh results); the counter is advanced first so
		// that the values written by the callee may refer to objects it allocated
		nac := e.vc.Fresh("ac", SInt)
		e.vc.Assume(True, IntLe(e.st.ac, nac))
		e.st.ac = nac
		for _, m := range ct.Modifies {
			e.havocLV(env, m)
		}
	} else {
		mods := map[string]string{}
		if callee != nil {
			for k, v := range e.P.ModSet(callee) {
				mods[k] = v
			}
		} else if c, ok := in.(ssa.CallInstruction); ok {
			func() {
				defer func() { recover() }()
				e.P.callMods(c.Common(), mods)
			}()
		}
		e.havocHeaps(mods)
		e.havocPtrArgs(args, mods)
	}
	// ghost variables the callee changes through its own callees take arbitrary new values (constrained by its ensures)
	for _, g := range ct.Havocs {
		if g == "clock" {
			// the callee may take time: the ghost clock moves forward by an arbitrary amount
			e.clock0()
			oldc := e.heapGet("GH.clock", STime)
			nc := e.vc.Fresh("GH.clock", STime)
			e.vc.Assume(True, And(SGe(nc, oldc), App("time_ok", SBool, nc)))
			e.st.heaps["GH.clock"] = nc
			continue
		}
		if gv := e.P.Ghosts[g]; gv != nil {
			hn := "GH.u." + g
			e.heap0(hn, gv.Sort)
			e.st.heaps[hn] = e.vc.Fresh(hn, gv.Sort)
		}
	}
	// 3. results
	vals := make([]Val, sig.Results().Len())
	post := e.callEnv(ct, callee, args, sig, e.st, pre)
	post.calleeNows = &calleeNows
	if acquired {
		post.atlock = pre
	}
	for i := range vals {
		vals[i] = e.havocVal("r."+trunc(name, 20), sig.Results().At(i).Type(), nil)
		if i < len(ct.Results) {
			post.vars[ct.Results[i]] = CV{V: vals[i], T: sig.Results().At(i).Type()}
		}
	}
	post.st = e.st
	// 4. postconditions
	nAssumed := 0
	for _, en := range ct.Ensures {
		t, err := post.EvalBool(en.E)
		if err != nil {
			e.vc.Note("postcondition of %s not usable at a call site: %s (%v)", name, en.Text, err)
			continue
		}
		e.vc.Assume(e.g, t)
		nAssumed++
	}
	// 4b. ghost assignments made by the callee at return
	for _, gs := range ct.Sets {
		gv := e.P.Ghosts[gs.Name]
		if gv == nil {
			e.vc.Note("sets clause of %s names an undeclared ghost %s", name, gs.Name)
			continue
		}
		t, err := post.EvalTerm(gs.Cl.E)
		if err != nil || t.Sort != gv.Sort {
			e.vc.Note("sets clause of %s not usable: %s (%v)", name, gs.Cl.Text, err)
			hn := "GH.u." + gs.Name
			e.heap0(hn, gv.Sort)
			e.st.heaps[hn] = e.vc.Fresh(hn, gv.Sort)
			continue
		}
		hn := "GH.u." + gs.Name
		e.heap0(hn, gv.Sort)
		e.heapSet(hn, t)
	}
	if nAssumed > 0 && !e.silent && e.depth == 0 && !e.g.IsFalse() {
		// vacuity guard: the assumed postconditions must not contradict what is known at this call
		// (reported only when the call itself was reachable: see coverPair)
		line := e.P.srcLine(instrPos(in))
		o := e.vc.Oblige("cover", fmt.Sprintf("after:%s@%s", name, trunc(line, 40)), "postconditions assumed for "+name+" are consistent with the facts at the call (vacuity guard) @ "+e.P.posString(instrPos(in)), e.P.posString(instrPos(in)), e.g, False, nil)
		o.ExpectSat = true
		o.coverBefore = preItems
	}
	return resultVal(vals, sig)
}

func orStr(a, b string) string {
	if a != "" {
		return a
	}
	return b
}

func trunc(s string, n int) string {
	if len(s) > n {
		return s[:n]
	}
	return s
}

// havocLV havocs the location named by a modifies clause, evaluated in the pre-state env.
func (e *Exec) havocLV(env *CEnv, m Clause) {
	defer func() {
		if r := recover(); r != nil {
			switch ce := r.(type) {
			case cevalErr:
				e.Unsupported("modifies clause %q: %s", m.Text, ce.msg)
			default:
				panic(r)
			}
		}
	}()
	x := m.E
	// elems(s): all elements of slice s
	if x.Kind == "call" && x.X.Kind == "ident" && x.X.Name == "elems" {
		s := env.eval(x.Args[0])
		sl, ok := types.Unalias(s.T).Underlying().(*types.Slice)
		if !ok {
			cfail("elems() of non-slice")
		}
		st := env.asTerm(s)
		old := e.backing(st, sl.Elem())
		na := e.vc.Fresh("hv", old.Sort)
		k := Sym("k", BV(64))
		inR := And(SGe(k, SlOff(st)), SLt(k, BVAdd(SlOff(st), SlLen(st))))
		e.vc.Assume(True, Forall([][2]string{{"k", BV(64)}}, Implies(Not(inR), Eq(Select(na, k), Select(old, k))), Select(na, k)))
		e.setBackingIf(Neq(SlRef(st), IntLit(0)), SlRef(st), sl.Elem(), na)
		return
	}
	if x.Kind == "call" && x.X.Kind == "ident" && x.X.Name == "entries" {
		mv := env.eval(x.Args[0])
		mt, ok := types.Unalias(mv.T).Underlying().(*types.Map)
		if !ok {
			cfail("entries() of non-map")
		}
		mr := env.asTerm(mv)
		mp, mvn := mapHeapNames(mt)
		ps := ArraySort(SInt, ArraySort(sortOf(mt.Key()), SBool))
		vs := ArraySort(SInt, ArraySort(sortOf(mt.Key()), sortOf(mt.Elem())))
		hp, hv := e.heapGet(mp, ps), e.heapGet(mvn, vs)
		e.heapSet(mp, Store(hp, mr, e.vc.Fresh("hvp", ArraySort(sortOf(mt.Key()), SBool))))
		e.heapSet(mvn, Store(hv, mr, e.vc.Fresh("hvv", ArraySort(sortOf(mt.Key()), sortOf(mt.Elem())))))
		return
	}
	if x.Kind == "call" && x.X.Kind == "ident" && x.X.Name == "heap" {
		// heap("T"): every object of the named type (escape hatch; coarse)
		cfail("heap() frames are not supported")
	}
	p := e.evalLV(env, x)
	e.store(p, e.havocVal("hv", p.Typ, nil))
}

// evalLV evaluates *p, p.f.g, s[i] to a pointer.
func (e *Exec) evalLV(env *CEnv, x *CExpr) *Ptr {
	switch x.Kind {
	case "unary":
		if x.Op == "*" {
			v := env.eval(x.X)
			p, ok := v.V.(*Ptr)
			if !ok {
				cfail("* of non-pointer in modifies")
			}
			np := *p
			np.NonNil = true
			return &np
		}
	case "sel":
		// base may be a pointer value or another l-value
		if bp := e.tryLV(env, x.X); bp != nil {
			st, ok := types.Unalias(bp.Typ).Underlying().(*types.Struct)
			if ok {
				idx, ft := fieldByName(st, x.Name)
				if idx < 0 {
					cfail("no field %s", x.Name)
				}
				np := *bp
				np.Path = append(append([]PathEl(nil), bp.Path...), PathEl{Field: idx, ContT: bp.Typ})
				np.Typ = ft
				return &np
			}
		}
		v := env.eval(x.X)
		if pt, ok := types.Unalias(v.T).Underlying().(*types.Pointer); ok {
			p := v.V.(*Ptr)
			st, ok := types.Unalias(pt.Elem()).Underlying().(*types.Struct)
			if !ok {
				cfail("field of non-struct")
			}
			idx, ft := fieldByName(st, x.Name)
			if idx < 0 {
				cfail("no field %s", x.Name)
			}
			np := *p
			np.NonNil = true
			np.Path = append(append([]PathEl(nil), p.Path...), PathEl{Field: idx, ContT: pt.Elem()})
			np.Typ = ft
			return &np
		}
	case "index":
		v := env.eval(x.X)
		if sl, ok := types.Unalias(v.T).Underlying().(*types.Slice); ok {
			s := env.asTerm(v)
			i := env.adapt(env.eval(x.Y), BV(64))
			return &Ptr{Kind: PElem, Ref: SlRef(s), Idx: BVAdd(SlOff(s), i), Base: sl.Elem(), Typ: sl.Elem(), NonNil: true}
		}
	}
	cfail("not an assignable location: %s", x)
	return nil
}

func (e *Exec) tryLV(env *CEnv, x *CExpr) (p *Ptr) {
	defer func() {
		if r := recover(); r != nil {
			if _, ok := r.(cevalErr); ok {
				p = nil
				return
			}
			panic(r)
		}
	}()
	if x.Kind == "ident" {
		return nil
	}
	return e.evalLV(env, x)
}

// ---------- function exit ----------

func (e *Exec) finish() {
	if len(e.rets) == 0 {
		return
	}
	var edges []edgeIn
	for _, r := range e.rets {
		edges = append(edges, edgeIn{g: r.g, st: r.st})
	}
	gs := make([]*Term, len(edges))
	for i, ed := range edges {
		gs[i] = ed.g
	}
	e.g = e.vc.Define("gret", Or(gs...))
	e.st = e.mergeStates(edges)
	// vacuity guard: some return must be reachable under everything assumed (contradictory preconditions,
	// model contracts or invariants would discharge every obligation after them)
	if e.depth == 0 && !e.silent {
		o := e.vc.Oblige("cover", "exit", "some return is reachable under the assumptions (vacuity guard)", e.P.posString(e.fn.Pos()), e.g, False, nil)
		o.ExpectSat = true
	}
	nres := e.fn.Signature.Results().Len()
	vals := make([]Val, nres)
	for k := 0; k < nres; k++ {
		vs := make([]Val, len(e.rets))
		for i, r := range e.rets {
			vs[i] = r.vals[k]
		}
		func() {
			defer func() {
				if r := recover(); r != nil {
					if _, ok := r.(unsupportedErr); ok {
						vals[k] = nil
						return
					}
					panic(r)
				}
			}()
			vals[k] = e.mergeVals(gs, vs, "ret")
		}()
	}
	if e.con == nil {
		return
	}
	env := e.paramEnv(e.st, e.st0)
	for i, n := range e.con.Results {
		if i < nres && vals[i] != nil {
			env.vars[n] = CV{V: vals[i], T: e.fn.Signature.Results().At(i).Type()}
		}
	}
	trustedEns := map[int]string{}
	for _, te := range e.con.Raw["trusted_ensures"] {
		parts := strings.SplitN(strings.TrimSpace(te), " ", 2)
		var idx int
		if _, err := fmt.Sscanf(parts[0], "%d", &idx); err == nil {
			reason := ""
			if len(parts) > 1 {
				reason = parts[1]
			}
			trustedEns[idx] = reason
		}
	}
	mergedG, mergedSt := e.g, e.st
	for k, en := range e.con.Ensures {
		if reason, ok := trustedEns[k]; ok {
			e.vc.Trusted[fmt.Sprintf("postcondition %d of %s assumed, not proved: %s (%s)", k, e.con.Fn, en.Text, reason)] = true
			continue
		}
		name := fmt.Sprintf("[%d]", k)
		// evaluated at every return site in that site's own (unmerged) state: the goal is the conjunction of
		// guard_i => post_i, so results that are literally false / nil at a site make its conjunct trivial
		var conj []*Term
		var evalErr error
		for _, r := range e.rets {
			e.g, e.st = r.g, r.st
			renv := e.paramEnv(r.st, e.st0)
			renv.lookup = e.returnLookup(r.blk)
			for i, n := range e.con.Results {
				if i < len(r.vals) && r.vals[i] != nil {
					renv.vars[n] = CV{V: r.vals[i], T: e.fn.Signature.Results().At(i).Type()}
				}
			}
			t, err := renv.EvalBool(en.E)
			if err != nil {
				evalErr = err
				break
			}
			conj = append(conj, Implies(r.g, t))
		}
		e.g, e.st = mergedG, mergedSt
		if evalErr != nil {
			o := e.vc.Oblige("ensures", name, "cannot evaluate postcondition "+en.Text+": "+evalErr.Error(), en.Line, e.g, False, nil)
			o.Status = "unknown"
			o.Raw = evalErr.Error()
			continue
		}
		var nontriv []*Term
		for _, c := range conj {
			if !c.IsTrue() {
				nontriv = append(nontriv, c)
			}
		}
		if len(nontriv) <= 1 {
			e.vc.ObligeAll("ensures", name, "postcondition "+en.Text+" ("+en.Line+")", en.Line, True, And(conj...), e.root.inputs)
		} else {
			// one obligation per return site where the postcondition is not trivially true
			for i, c := range nontriv {
				e.vc.ObligeAll("ensures", fmt.Sprintf("%s.site%d", name, i+1), "postcondition "+en.Text+" ("+en.Line+") at return site "+fmt.Sprint(i+1), en.Line, True, c, e.root.inputs)
			}
		}
	}
	_ = env
	if e.con.HasFrame() {
		if tf, ok := e.con.Raw["trusted_frame"]; ok {
			e.vc.Trusted["frame of "+e.con.Fn+" assumed, not proved ("+strings.Join(tf, "; ")+")"] = true
		} else {
			e.checkFrame(env)
		}
	}
}

// frame machinery: every pre-existing object not named by a modifies clause is unchanged.
type frameAllow struct {
	heap  string
	ref   *Term
	path  []PathEl
	elems *Term // slice term for elems()
	idx   *Term
	whole bool
}

// frameAllows evaluates the modifies clauses in the pre-state (cached per function execution).
func (e *Exec) frameAllows() []frameAllow {
	if e.allowsDone {
		return e.allows
	}
	e.allowsDone = true
	pre := e.paramEnv(e.st0, nil)
	var allows []frameAllow
	for _, m := range e.con.Modifies {
		func() {
			defer func() {
				if r := recover(); r != nil {
					switch r.(type) {
					case cevalErr, unsupportedErr:
						e.vc.Oblige("frame", "modifies", fmt.Sprintf("cannot evaluate modifies clause %s: %v", m.Text, r), m.Line, True, False, nil).Status = "unknown"
					default:
						panic(r)
					}
				}
			}()
			x := m.E
			if x.Kind == "call" && x.X.Kind == "ident" && x.X.Name == "elems" {
				s := pre.eval(x.Args[0])
				sl := types.Unalias(s.T).Underlying().(*types.Slice)
				allows = append(allows, frameAllow{heap: elemHeapName(sl.Elem()), elems: pre.asTerm(s)})
				return
			}
			if x.Kind == "call" && x.X.Kind == "ident" && x.X.Name == "entries" {
				mv := pre.eval(x.Args[0])
				mt := types.Unalias(mv.T).Underlying().(*types.Map)
				mp, mvn := mapHeapNames(mt)
				allows = append(allows, frameAllow{heap: mp, ref: pre.asTerm(mv), whole: true}, frameAllow{heap: mvn, ref: pre.asTerm(mv), whole: true})
				return
			}
			var p *Ptr
			saveSt, saveSilent := e.st, e.silent
			e.st = e.st0.clone()
			e.silent = true
			func() {
				defer func() { e.st, e.silent = saveSt, saveSilent }()
				p = e.evalLV(pre, x)
			}()
			switch p.Kind {
			case PHeap:
				allows = append(allows, frameAllow{heap: heapName(p.Base), ref: p.Ref, path: p.Path, whole: len(p.Path) == 0})
			case PArr:
				allows = append(allows, frameAllow{heap: elemHeapName(p.Base), ref: p.Ref, whole: true})
			case PElem:
				allows = append(allows, frameAllow{heap: elemHeapName(p.Base), ref: p.Ref, idx: p.Idx})
			case PGlobal:
				allows = append(allows, frameAllow{heap: "G." + mangle(p.Global.Pkg.Pkg.Path()+"."+p.Global.Name()), whole: true})
			}
		}()
	}
	e.allows = allows
	return allows
}

// frameGoal: for heap hn with current value final: object r (and element k for backing arrays) is either
// not pre-existing, named by modifies, or equal to its initial value.
func (e *Exec) frameGoal(hn string, final, r, k *Term) *Term {
	allows := e.frameAllows()
	init := e.heap0(hn, e.root.heapSorts[hn])
	ac0 := e.st0.ac
	exists := And(IntLt(IntLit(0), r), IntLt(r, ac0))
	fv, iv := Select(final, r), Select(init, r)
	if strings.HasPrefix(hn, "A.") {
		same := Eq(Select(fv, k), Select(iv, k))
		var exc []*Term
		for _, a := range allows {
			if a.heap != hn {
				continue
			}
			switch {
			case a.elems != nil:
				exc = append(exc, And(Eq(r, SlRef(a.elems)), SGe(k, SlOff(a.elems)), SLt(k, BVAdd(SlOff(a.elems), SlLen(a.elems)))))
			case a.whole:
				exc = append(exc, Eq(r, a.ref))
			case a.idx != nil:
				exc = append(exc, And(Eq(r, a.ref), Eq(k, a.idx)))
			}
		}
		return Implies(exists, Or(append(exc, same)...))
	}
	if strings.HasPrefix(hn, "MP.") || strings.HasPrefix(hn, "MV.") {
		var exc []*Term
		for _, a := range allows {
			if a.heap == hn && a.whole {
				exc = append(exc, Eq(r, a.ref))
			}
		}
		return Implies(exists, Or(append(exc, Eq(fv, iv))...))
	}
	var exc []*Term
	var partial []frameAllow
	for _, a := range allows {
		if a.heap != hn {
			continue
		}
		if a.whole {
			exc = append(exc, Eq(r, a.ref))
		} else {
			partial = append(partial, a)
		}
	}
	eq := Eq(fv, iv)
	if len(partial) > 0 {
		patched := iv
		for _, a := range partial {
			patchedA := pathSet(patched, a.path, pathGet(fv, a.path))
			patched = Ite(Eq(r, a.ref), patchedA, patched)
		}
		eq = Eq(fv, patched)
	}
	return Implies(exists, Or(append(exc, eq)...))
}

func frameHeapSkipped(hn string) bool {
	return strings.HasPrefix(hn, "B.") || strings.HasPrefix(hn, "GH.")
}

func (e *Exec) checkFrame(env *CEnv) {
	allows := e.frameAllows()
	var names []string
	for k := range e.st.heaps {
		names = append(names, k)
	}
	sort.Strings(names)
	for _, hn := range names {
		final := e.st.heaps[hn]
		init := e.heap0(hn, e.root.heapSorts[hn])
		if same(final, init) || frameHeapSkipped(hn) || len(e.P.guardsOfHeap(hn)) > 0 {
			// state guarded by a declared lock is shared: its changes are governed by the atlock-relative
			// postconditions and the lock invariant, not by the function's own frame
			continue
		}
		if strings.HasPrefix(hn, "G.") {
			ok := false
			for _, a := range allows {
				if a.heap == hn {
					ok = true
				}
			}
			if !ok {
				e.vc.Oblige("frame", hn, "global "+hn+" unchanged (not in modifies)", e.con.File, e.g, Eq(final, init), e.root.inputs)
			}
			continue
		}
		r := e.vc.Fresh("fr", SInt)
		k := e.vc.Fresh("fk", BV(64))
		e.vc.Oblige("frame", hn, "objects in "+hn+" not named by modifies are unchanged ("+e.con.File+")", e.con.File, e.g, e.frameGoal(hn, final, r, k), e.root.inputs)
	}
}

// loop frames: the function's frame is an implicit invariant of every loop (assumed for the havocked
// heaps at the header, checked at the latch).
func (e *Exec) assumeLoopFrame(lp *Loop, heaps []string) {
	if e.con == nil || !e.con.HasFrame() || e.depth > 0 {
		return
	}
	// with a trusted frame the function's modifies clause is an assumption: it is assumed at loop heads as well,
	// and not checked at the latch
	_, trustedFrame := e.con.Raw["trusted_frame"]
	lp.frameHeaps = nil
	for _, hn := range heaps {
		if frameHeapSkipped(hn) || strings.HasPrefix(hn, "G.") || len(e.P.guardsOfHeap(hn)) > 0 {
			continue
		}
		cur, ok := e.st.heaps[hn]
		if !ok {
			continue
		}
		if !trustedFrame {
			lp.frameHeaps = append(lp.frameHeaps, hn)
		}
		r, k := Sym("fr.q", SInt), Sym("fk.q", BV(64))
		body := e.frameGoal(hn, cur, r, k)
		vars := [][2]string{{"fr.q", SInt}}
		var pats []*Term
		if strings.HasPrefix(hn, "A.") {
			vars = append(vars, [2]string{"fk.q", BV(64)})
			pats = []*Term{Select(Select(cur, r), k)}
		} else {
			pats = []*Term{Select(cur, r)}
		}
		e.vc.Assume(True, Forall(vars, body, pats...))
	}
}

func (e *Exec) checkLoopFrame(lp *Loop) {
	for _, hn := range lp.frameHeaps {
		final, ok := e.st.heaps[hn]
		if !ok {
			continue
		}
		r := e.vc.Fresh("fr", SInt)
		k := e.vc.Fresh("fk", BV(64))
		e.vc.Oblige("frame", e.loopName(lp)+"."+hn, "loop preserves the function's frame for "+hn, e.con.File, e.g, e.frameGoal(hn, final, r, k), e.root.inputs)
	}
}
