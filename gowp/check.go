package main

// `gowp check <id> quick|thorough`: generate and discharge the obligations of one property from
// /repo's current working tree, compare with known_findings.json, write evidence, print
// KNOWN-FINDING / VIOLATION lines, set the exit code.

import (
	"go/types"
	"crypto/sha1"
	"encoding/json"
	"fmt"
	"os"
	"path/filepath"
	"regexp"
	"sort"
	"strconv"
	"strings"
	"sync"
	"time"

	"golang.org/x/tools/go/ssa"
)

type Finding struct {
	Property   string `json:"property"`
	Status     string `json:"status"` // known | fixed
	Obligation string `json:"obligation"` // exact name, or prefix ending in *
	What       string `json:"what"`
	Witness    string `json:"witness,omitempty"`
	Commit     string `json:"commit,omitempty"`
	Input      string `json:"input,omitempty"`
	Also       []string `json:"also,omitempty"`
}

func loadFindings() []Finding {
	var fs []Finding
	b, err := os.ReadFile(filepath.Join(verifDir, "known_findings.json"))
	if err != nil {
		return nil
	}
	if err := json.Unmarshal(b, &fs); err != nil {
		fmt.Fprintln(os.Stderr, "known_findings.json:", err)
		os.Exit(2)
	}
	return fs
}

func (f *Finding) matches(prop, obl string) bool {
	if f.Status != "known" {
		return false
	}
	// a finding is tied to its property; "also" lists other properties whose checks re-generate the same obligation
	if f.Property != prop {
		ok := false
		for _, a := range f.Also {
			if a == prop {
				ok = true
			}
		}
		if !ok {
			return false
		}
	}
	if strings.HasSuffix(f.Obligation, "*") {
		return strings.HasPrefix(obl, strings.TrimSuffix(f.Obligation, "*"))
	}
	return f.Obligation == obl
}

type checkCtx struct {
	id      string
	tier    string
	seed    int
	prop    *PropDef
	P       *Program
	results []*FnResult
	extra   []*Obligation // table obligations etc.
	bounded []map[string]interface{}
	t0      time.Time
	notes   []string
}

func cmdCheck(args []string) {
	if len(args) < 2 {
		fmt.Fprintln(os.Stderr, "usage: gowp check <id> quick|thorough [--replay path]")
		os.Exit(2)
	}
	id, tier := args[0], args[1]
	if len(args) >= 4 && args[2] == "--replay" {
		os.Exit(cmdReplay(id, args[3]))
	}
	if tier != "quick" && tier != "thorough" {
		tier = "quick"
	}
	// the tier named on the command line decides everything (also what the solver layer reads from the environment)
	os.Setenv("VERIF_TIER", tier)
	seed := 0
	if s := os.Getenv("VERIF_SEED"); s != "" {
		seed, _ = strconv.Atoi(s)
	}
	prop := props[id]
	if prop == nil {
		fmt.Fprintln(os.Stderr, "unknown property", id)
		os.Exit(2)
	}
	repo := os.Getenv("GOWP_REPO")
	if repo == "" {
		repo = "/repo/v8"
	}
	t0 := time.Now()
	p, err := loadAll(repo, nil)
	if err != nil {
		// the tree does not load: nothing can be claimed
		fmt.Println("gowp: cannot load", repo, ":", err)
		os.Exit(2)
	}
	cc := &checkCtx{id: id, tier: tier, seed: seed, prop: prop, P: p, t0: t0}
	code := cc.run()
	if workDir != "" {
		os.RemoveAll(workDir)
	}
	os.Exit(code)
}

func (cc *checkCtx) selectFuncs() []*ssa.Function {
	p := cc.P
	set := map[*ssa.Function]bool{}
	for _, pat := range cc.prop.Funcs {
		if f := p.Funcs[pat]; f != nil {
			set[f] = true
			continue
		}
		re, err := regexp.Compile("^(?:" + pat + ")$")
		matched := false
		if err == nil {
			for n, f := range p.Funcs {
				if re.MatchString(n) {
					set[f] = true
					matched = true
				}
			}
		}
		if !matched {
			cc.notes = append(cc.notes, "function under contract not found: "+pat)
			cc.extra = append(cc.extra, &Obligation{Fn: pat, Name: pat + "#exists", Kind: "exists", Desc: "function listed for this property exists in the tree", Status: "failed", Raw: "no function matches " + pat})
		}
	}
	// contracts written for functions that do not exist (wrong receiver, renamed or dead code that go/ssa does not
	// build) would be silently unused: report them once, under every property whose functions share the package
	{
		repoPkgs := map[string]bool{}
		for _, pk := range p.SSA.AllPackages() {
			if pk.Pkg != nil && strings.HasPrefix(pk.Pkg.Path(), strings.TrimSuffix(modPrefix, "/")) {
				repoPkgs[shortName(pk.Pkg.Path())] = true
			}
		}
		propPkgs := map[string]bool{}
		for f := range set {
			if f.Pkg != nil {
				propPkgs[shortName(f.Pkg.Pkg.Path())] = true
			}
		}
		var names []string
		for n := range p.Contracts {
			names = append(names, n)
		}
		sort.Strings(names)
		for _, n := range names {
			ct := p.Contracts[n]
			if ct.Model || p.Funcs[n] != nil {
				continue
			}
			// package of the contract's function: "pkg.F", "(pkg.T).M", "(*pkg.T).M"
			q := strings.TrimLeft(n, "(*")
			pkg := q
			if i := strings.LastIndex(q, "."); i >= 0 {
				pkg = q[:i]
				if j := strings.LastIndex(pkg, "."); j >= 0 && strings.Contains(n, ")") {
					pkg = pkg[:j]
				}
			}
			if !repoPkgs[pkg] || !propPkgs[pkg] {
				continue
			}
			// interface method contracts have no function of their own
			if strings.HasPrefix(n, "(") {
				tn := strings.TrimPrefix(strings.TrimPrefix(n[:strings.Index(n, ")")], "("), "*")
				if T := p.lookupType(tn); T != nil {
					if _, isI := types.Unalias(T).Underlying().(*types.Interface); isI {
						continue
					}
				}
			}
			cc.extra = append(cc.extra, &Obligation{Fn: n, Name: n + "#contract:exists", Kind: "contract", Desc: "the function this contract is written for exists in the tree (" + ct.File + ")", Status: "failed", Raw: "no such function: the contract would be silently unused"})
		}
	}
	if cc.prop.Closure {
		work := []*ssa.Function{}
		for f := range set {
			work = append(work, f)
		}
		for len(work) > 0 {
			f := work[len(work)-1]
			work = work[:len(work)-1]
			var visit func(fn *ssa.Function)
			visit = func(fn *ssa.Function) {
				for _, b := range fn.Blocks {
					for _, in := range b.Instrs {
						switch x := in.(type) {
						case ssa.CallInstruction:
							for _, c := range p.callees(x.Common()) {
								if inRepo(c) && !set[c] && c.Synthetic == "" && !excludedFromSweep(fnName(c)) {
									set[c] = true
									work = append(work, c)
								}
							}
						case *ssa.MakeClosure:
							if c, ok := x.Fn.(*ssa.Function); ok && !set[c] {
								set[c] = true
								work = append(work, c)
							}
						}
					}
				}
			}
			visit(f)
		}
	}
	var out []*ssa.Function
	var excl []*regexp.Regexp
	for _, x := range cc.prop.Exclude {
		excl = append(excl, regexp.MustCompile("^(?:"+x+")$"))
	}
	for f := range set {
		if len(f.Blocks) == 0 {
			continue
		}
		skip := false
		for _, re := range excl {
			if re.MatchString(fnName(f)) {
				skip = true
			}
		}
		if skip {
			continue
		}
		if cc.prop.SkipInlinable && p.inlinable(f) && !ast_IsExported(f) {
			continue
		}
		out = append(out, f)
	}
	sort.Slice(out, func(i, j int) bool { return fnName(out[i]) < fnName(out[j]) })
	return out
}

func ast_IsExported(f *ssa.Function) bool {
	if f.Object() != nil {
		return f.Object().Exported()
	}
	return false
}

func excludedFromSweep(name string) bool {
	return strings.HasPrefix(name, "examples") || strings.HasPrefix(name, "test/") || strings.HasPrefix(name, "(test/") || strings.HasPrefix(name, "(*test/")
}

func (cc *checkCtx) run() int {
	p := cc.P
	prop := cc.prop
	fns := cc.selectFuncs()
	timeout := prop.QuickTimeout
	if timeout == 0 {
		timeout = 6
	}
	if cc.tier == "thorough" {
		// never less patient than the quick tier
		timeout = 2 * timeout
		if timeout < 30 {
			timeout = 30
		}
	}
	// verify functions in parallel
	findings := loadFindings()
	noRetry := func(name string) bool {
		if strings.Contains(name, "lemmaCanary") {
			return true // canaries are expected not to be provable: one attempt is enough
		}
		for i := range findings {
			if findings[i].matches(cc.id, name) {
				return true
			}
		}
		return false
	}
	results := make([]*FnResult, len(fns))
	var wg sync.WaitGroup
	sem := make(chan struct{}, 8)
	for i, f := range fns {
		wg.Add(1)
		sem <- struct{}{}
		go func(i int, f *ssa.Function) {
			defer wg.Done()
			defer func() { <-sem }()
			results[i] = p.VerifyFunction(f, &VerifyOpts{TimeoutS: timeout, Workers: 4, Keep: false, Hooks: prop.Hooks, Alloc: prop.AllocBound, NoRetry: noRetry})
		}(i, f)
	}
	wg.Wait()
	cc.results = results
	if prop.Extra != nil {
		cc.extra = append(cc.extra, prop.Extra(cc)...)
	}
	return cc.report()
}

type oblRec struct {
	o  *Obligation
	fn string
}

func (cc *checkCtx) report() int {
	prop := cc.prop
	findings := loadFindings()
	var all []*Obligation
	byFn := map[string]int{}
	var unsupported []string
	trusted := map[string]bool{}
	notes := map[string]bool{}
	autoInv := 0
	for _, r := range cc.results {
		if r.Unsupported != "" {
			unsupported = append(unsupported, r.Fn+": "+r.Unsupported)
			// a function under contract that left the subset is an undischarged obligation unless declared
			if !prop.AllowUnsupported[r.Fn] {
				all = append(all, &Obligation{Fn: r.Fn, Name: r.Fn + "#subset", Kind: "subset", Desc: "function is inside the accepted subset", Status: "unknown", Raw: r.Unsupported})
			}
			continue
		}
		autoInv += len(r.AutoInv)
		for _, o := range r.Obls {
			if prop.Kinds != nil && !prop.Kinds[o.Kind] {
				continue
			}
			all = append(all, o)
			byFn[r.Fn]++
		}
		for _, t := range r.Trusted {
			trusted[t] = true
		}
		for _, n := range r.Notes {
			notes[n] = true
		}
	}
	all = append(all, cc.extra...)
	// vacuity canaries: postconditions of functions named lemmaCanary* are false statements over the same
	// specification; proving one means the specification or the engine is inconsistent
	for _, o := range all {
		if strings.Contains(o.Fn, "lemmaCanary") && o.Kind == "ensures" {
			if o.Status == "discharged" || o.Status == "trivial" {
				o.Status, o.Raw = "failed", "canary proved: a deliberately false statement was discharged - specification or engine inconsistent"
			} else {
				o.Status, o.Solver = "discharged", "canary(not provable, as required)"
			}
			o.Desc = "vacuity canary is NOT provable: " + o.Desc
		}
	}
	sort.SliceStable(all, func(i, j int) bool { return all[i].Name < all[j].Name })
	total, discharged, trivial, quant := 0, 0, 0, 0
	bySolver := map[string]int{}
	solverSecs := 0.0
	var open []*Obligation
	for _, o := range all {
		if o.Status != "trivial" && o.Status != "discharged" {
			for _, ao := range cc.P.AssumedObls {
				if strings.HasPrefix(o.Name, ao.Prefix) {
					trusted["obligation assumed, not proved: "+o.Name+" ("+ao.Reason+")"] = true
					o.Status = "assumed"
				}
			}
		}
		if o.Status == "assumed" {
			continue
		}
		total++
		switch o.Status {
		case "trivial":
			trivial++
			discharged++
			bySolver["syntactic"]++
		case "discharged":
			discharged++
			bySolver[o.Solver]++
		default:
			open = append(open, o)
		}
		if o.Quant {
			quant++
		}
		solverSecs += o.Secs
	}
	// vacuity: every function listed must have produced obligations
	if prop.NeedObligations {
		for _, r := range cc.results {
			if r.Unsupported == "" && byFn[r.Fn] == 0 && r.HasContract {
				o := &Obligation{Fn: r.Fn, Name: r.Fn + "#vacuity", Kind: "vacuity", Desc: "function under contract generates at least one obligation", Status: "failed", Raw: "zero obligations"}
				open = append(open, o)
				total++
			}
		}
	}
	violations := 0
	knownOpen := 0
	replayDir := filepath.Join(verifDir, "replay", cc.id)
	var lines []string
	matchedFinding := map[int]bool{}
	for _, o := range open {
		known := -1
		for i := range findings {
			if findings[i].matches(cc.id, o.Name) {
				known = i
				break
			}
		}
		if known >= 0 {
			knownOpen++
			if !matchedFinding[known] {
				matchedFinding[known] = true
				lines = append(lines, fmt.Sprintf("KNOWN-FINDING: property=%s %s [%s]", cc.id, findings[known].What, findings[known].Obligation))
			}
			continue
		}
		violations++
		if lf, err := os.OpenFile(filepath.Join(verifDir, "work", "violations.log"), os.O_APPEND|os.O_CREATE|os.O_WRONLY, 0644); err == nil {
			fmt.Fprintf(lf, "%s %s %s [%s/%s] %.1fs\n", time.Now().Format(time.RFC3339), cc.id, o.Name, o.Status, o.Solver, o.Secs)
			lf.Close()
		}
		os.MkdirAll(replayDir, 0755)
		hsum := sha1.Sum([]byte(o.Name))
		path := filepath.Join(replayDir, fmt.Sprintf("%s.%x.json", fileSafe.ReplaceAllString(trunc(o.Name, 120), "_"), hsum[:3]))
		reproduced := cc.writeReplay(o, path, violations <= 6)
		suffix := ""
		if !reproduced {
			suffix = " no-failing-input-found"
		}
		lines = append(lines, fmt.Sprintf("VIOLATION property=%s replay=%s%s", cc.id, path, suffix))
		fmt.Printf("  undischarged: %s [%s]\n    %s\n", o.Name, o.Status, o.Desc)
	}
	for _, l := range lines {
		fmt.Println(l)
	}
	// evidence
	var tb []string
	for t := range trusted {
		tb = append(tb, t)
	}
	for n := range notes {
		if strings.HasPrefix(n, "external") || strings.HasPrefix(n, "havocked") {
			tb = append(tb, n)
		}
	}
	sort.Strings(tb)
	var assumptions []string
	assumptions = append(assumptions, prop.Assumptions...)
	assumptions = append(assumptions,
		"machine integers are exact bit-vectors; the only arithmetic assumption is 0 <= len <= cap <= 2^48 for slices, strings, maps",
		"receivers and pointer parameters of a function under verification are non-nil and do not alias each other's pointees unless of the same type",
		"goroutine spawns are no-ops; bodies of external functions are replaced by the trusted models / havoc listed in trusted_base",
		"map iteration order arbitrary; time.Time is an instant (monotonic reading and location ignored)")
	for n := range notes {
		if !strings.HasPrefix(n, "external") && !strings.HasPrefix(n, "havocked") {
			assumptions = append(assumptions, n)
		}
	}
	sort.Strings(assumptions[len(prop.Assumptions):])
	var samples []interface{}
	cnt := 0
	for _, o := range all {
		if o.Status == "discharged" && cnt < 6 && (o.Kind == "ensures" || o.Kind == "loop" || cnt < 3) {
			samples = append(samples, map[string]string{"obligation": o.Name, "what": o.Desc, "backend": o.Solver, "goal": trunc(goalText(o), 400)})
			cnt++
		}
	}
	for _, o := range open {
		if len(samples) < 10 {
			samples = append(samples, map[string]string{"obligation": o.Name, "what": o.Desc, "status": o.Status})
		}
	}
	if len(samples) == 0 {
		samples = append(samples, map[string]string{"note": "no solver-discharged obligation to sample"})
	}
	var fnNames []string
	for _, r := range cc.results {
		if r.Unsupported == "" {
			fnNames = append(fnNames, r.Fn)
		}
	}
	level := "proof"
	if prop.Level != "" {
		level = prop.Level
	}
	explanation := fmt.Sprintf("%d obligations generated from the current source of %d functions; %d discharged (%d syntactically, rest by SMT); %d inferred loop invariants proved inductive.", total, len(fnNames), discharged, trivial, autoInv)
	if len(open) > 0 || total == 0 {
		level = "other"
		explanation += fmt.Sprintf(" %d obligations are NOT discharged (%d covered by known findings, %d reported as violations): this run is not a proof of the property.", len(open), knownOpen, violations)
	}
	if prop.LevelNote != "" {
		explanation += " " + prop.LevelNote
	}
	cov := map[string]interface{}{
		"obligations":              total,
		"discharged":               discharged,
		"checker_cmd":              fmt.Sprintf("./check %s %s  (gowp: go/ssa VC generator; back ends z3-new 5.1.0, z3 4.8.12, cvc5 1.0)", cc.id, cc.tier),
		"trusted_base":             tb,
		"samples":                  samples,
		"explanation":              explanation,
		"functions_under_contract": fnNames,
		"functions_outside_subset": unsupported,
		"obligations_by_backend":   bySolver,
		"quantified_obligations":   quant,
		"solver_seconds":           solverSecs,
		"inferred_invariants":      autoInv,
		"known_findings_open":      knownOpen,
		"undischarged":             len(open),
		"bounded_standins":         cc.bounded,
		"evaluations":              total,
		"distinct_nontrivial":      total - trivial,
		"rule":                     "one evaluation = one proof obligation generated from the current source; non-trivial = needed a solver call",
		"not_decided":              prop.NotDecided,
	}
	ev := map[string]interface{}{
		"property_id": cc.id,
		"tier":        cc.tier,
		"seed":        cc.seed,
		"level":       level,
		"coverage":    cov,
		"assumptions": assumptions,
		"wall_s":      time.Since(cc.t0).Seconds(),
		"violations":  violations,
	}
	os.MkdirAll(filepath.Join(verifDir, "evidence"), 0755)
	b, _ := json.MarshalIndent(ev, "", " ")
	os.WriteFile(filepath.Join(verifDir, "evidence", cc.id+".json"), b, 0644)
	fmt.Printf("%s %s: functions=%d obligations=%d discharged=%d (syntactic %d) open=%d known=%d violations=%d wall=%.1fs\n",
		cc.id, cc.tier, len(fnNames), total, discharged, trivial, len(open), knownOpen, violations, time.Since(cc.t0).Seconds())
	if violations > 0 {
		return 1
	}
	return 0
}

// writeReplay writes the replay file and, where the function takes plain data, replays the model on the real code.
func (cc *checkCtx) writeReplay(o *Obligation, path string, doReplay bool) bool {
	rec := map[string]interface{}{
		"property":   cc.id,
		"obligation": o.Name,
		"function":   o.Fn,
		"kind":       o.Kind,
		"what":       o.Desc,
		"status":     o.Status,
		"solver":     o.Solver,
		"model":      o.Model,
		"solver_output": trunc(o.Raw, 4000),
	}
	reproduced := false
	if o.Kind == "bounded" && strings.Contains(o.Raw, "GOWP-BOUNDED-FAIL") {
		// the stand-in ran the real code on the input it prints: that is the failing input
		rec["replay_output"] = "failing input found by the executable stand-in on the real code (see solver_output)"
		rec["replay_reproduced"] = true
		reproduced = true
	}
	if !doReplay {
		rec["replay_output"] = "replay skipped: more than 6 violations in this run (replays are capped)"
	}
	if doReplay && o.Status == "failed" && o.Model != nil && o.vc != nil {
		out, ok := cc.directReplay(o)
		rec["replay_output"] = trunc(out, 4000)
		rec["replay_reproduced"] = ok
		reproduced = ok
	}
	b, _ := json.MarshalIndent(rec, "", " ")
	os.WriteFile(path, b, 0644)
	return reproduced
}

func cmdReplay(id, path string) int {
	b, err := os.ReadFile(path)
	if err != nil {
		fmt.Fprintln(os.Stderr, err)
		return 2
	}
	fmt.Println(string(b))
	return 0
}

func goalText(o *Obligation) string {
	if o.Goal == nil {
		return o.Desc
	}
	return o.Goal.String()
}
