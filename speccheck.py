#!/usr/bin/env python3
# speccheck.py: every quantified axiom of the specification (spec/*.smt2) is checked for satisfiability ON ITS OWN
# (fixed preamble + all declarations and definitions of the specification + that single axiom) with z3 4.8.12, z3-new and
# cvc5. An axiom that is unsatisfiable by itself (typically a bound that wraps in 64-bit arithmetic) makes every proof
# that includes it vacuous. Exit 1 if any solver answers unsat. Run after every change to spec/.
import re,subprocess,glob,sys,os,tempfile
src=open('/verif/gowp/vc.go').read()
a=src.index('const preambleFixed = `')+len('const preambleFixed = `')
b=src.index('\n`\n',a)
pre=src[a:b].replace('` + maxLenLit + `','#x0001000000000000')
def sexprs(s):
    out=[];depth=0;cur='';inc=False
    for ch in s:
        if inc:
            if ch=='\n': inc=False
            continue
        if ch==';' and depth==0: inc=True; continue
        if ch=='(': depth+=1
        if depth>0: cur+=ch
        if ch==')':
            depth-=1
            if depth==0: out.append(cur); cur=''
    return out
decls=[];axioms=[]
for f in sorted(glob.glob('/verif/spec/*.smt2')):
    for e in sexprs(open(f).read()):
        if e.startswith('(assert'): axioms.append((os.path.basename(f),e))
        else: decls.append(e)
pre_s=[e for e in sexprs(pre) if not e.startswith('(set-option')]
# symbols the generator declares on demand (function identities, type ids): declare every fid.* / tid.* mentioned
extra=[]
for sym in sorted(set(re.findall(r'\b(fid\.[A-Za-z0-9_.$]+|tid\.[A-Za-z0-9_.$*]+)', '\n'.join(decls)+'\n'.join(a for _,a in axioms)))):
    extra.append('(declare-const %s Int)'%sym)
# literal byte sequences are declared on demand too; they go after the declaration of BSeq, i.e. after the first file
lits=['(declare-const %s BSeq)'%sym for sym in sorted(set(re.findall(r'\bseqlit\.[0-9a-f]+', '\n'.join(decls)+'\n'.join(a for _,a in axioms))))]
k=next(i for i,e in enumerate(decls) if 'declare-sort BSeq' in e)
decls=decls[:k+1]+lits+decls[k+1:]
from concurrent.futures import ThreadPoolExecutor
def one(item):
    f,ax=item
    q='\n'.join(pre_s+extra+decls+[ax,'(check-sat)'])
    p=tempfile.mktemp(suffix='.smt2'); open(p,'w').write(q)
    verdicts=[]
    for cmd in (['/usr/bin/z3','-T:5'],['z3-new','-T:5'],['cvc5','--tlimit=5000']):
        try:
            r=subprocess.run(cmd+[p],capture_output=True,text=True,timeout=20)
            v=(r.stdout.strip().split('\n') or ['?'])[0]
        except Exception as ex: v='timeout'
        verdicts.append(v[:20])
    os.unlink(p)
    return f,ax,verdicts
bad=0
with ThreadPoolExecutor(max_workers=12) as ex:
    for f,ax,verdicts in ex.map(one,axioms):
        if 'unsat' in verdicts:
            bad+=1; print('INCONSISTENT',f,verdicts,ax[:300].replace('\n',' '))
        elif any(v.startswith('(error') for v in verdicts):
            bad+=1; print('error',f,verdicts,ax[:120].replace('\n',' '))
print('axioms=%d inconsistent=%d'%(len(axioms),bad))
sys.exit(1 if bad else 0)
