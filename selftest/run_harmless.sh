#!/bin/bash
# selftest/run_harmless.sh: must-pass corpus. Each harmless/<Cnn>_<name>.diff is a behaviour-preserving change to /repo
# (renamed locals, shifted lines, added comments); the check of property Cnn must still exit 0 without a VIOLATION line.
# Run after every engine or contract change (needs a clean /repo).
cd /verif
fail=0
for d in selftest/harmless/*.diff; do
  pid=$(basename $d | cut -d_ -f1)
  if [ -n "$(git -C /repo status --porcelain)" ]; then echo "refusing: /repo dirty"; exit 9; fi
  git -C /repo apply /verif/$d || { echo "APPLY-FAILED $d"; fail=1; continue; }
  out=$(./check $pid quick 2>&1); rc=$?
  git -C /repo checkout -- .
  if [ $rc -eq 0 ] && ! echo "$out" | grep -q "^VIOLATION"; then echo "ok   $d still passes"; else echo "FALSE-ALARM $d (exit $rc): $(echo "$out" | grep ^VIOLATION | head -3)"; fail=1; fi
done
exit $fail
