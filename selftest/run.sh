#!/bin/bash
# selftest/run.sh: must-fail corpus. Each <Cnn>_<name>.diff is a change to /repo that breaks property Cnn; the check
# must report a violation with it applied. Run after every engine change (needs a clean /repo).
cd /verif
fail=0
for d in selftest/*.diff; do
  pid=$(basename $d | cut -d_ -f1)
  if [ -n "$(git -C /repo status --porcelain)" ]; then echo "refusing: /repo dirty"; exit 9; fi
  git -C /repo apply /verif/$d || { echo "APPLY-FAILED $d"; fail=1; continue; }
  out=$(./check $pid quick 2>&1); rc=$?
  git -C /repo checkout -- .
  if [ $rc -eq 1 ] && echo "$out" | grep -q "^VIOLATION property=$pid"; then echo "ok   $d detected: $(echo "$out" | grep -c ^VIOLATION) violation line(s)"; else echo "MISS $d (exit $rc)"; fail=1; fi
done
exit $fail
