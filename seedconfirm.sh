#!/bin/bash
# seedconfirm.sh <dir with patch.diff, meta.json, demo>: confirm in a scratch worktree of /repo HEAD that
# (1) suite passes with patch, (2) demo fails with patch, (3) demo passes without patch.
set -u
d=$1
export GOFLAGS=-mod=mod GOPROXY=off GOSUMDB=off GOTOOLCHAIN=local
wt=$(mktemp -d /tmp/seedwt.XXXXXX)
git -C /repo worktree add -q --detach "$wt" HEAD || exit 2
trap 'git -C /repo worktree remove --force "$wt" >/dev/null 2>&1; rm -rf "$wt"' EXIT
pkgdir=$(python3 -c "import json;print(json.load(open('$d/meta.json'))['demo_pkg_dir'])")
demofile=$(python3 -c "import json;print(json.load(open('$d/meta.json'))['demo_file'])")
demofile=$(basename "$demofile")
cmd=$(python3 -c "import json;print(json.load(open('$d/meta.json'))['demo_cmd'])")
run=$(echo "$cmd" | grep -o "\-run [^ ]*" | head -1)
[ -z "$run" ] && run="-run ."
cp "$d/$demofile" "$wt/$pkgdir/"
# without patch
(cd "$wt/$pkgdir" && timeout 300 go test -vet=off -count=1 $(echo $run | sed "s/'//g") . >/tmp/seed_nopatch.log 2>&1); r_nopatch=$?
# apply
if ! git -C "$wt" apply --3way "$d/patch.diff" >/tmp/seed_apply.log 2>&1; then echo "RESULT $d APPLY-FAILED"; cat /tmp/seed_apply.log | head -5; exit 3; fi
(cd "$wt/$pkgdir" && timeout 300 go test -vet=off -count=1 $(echo $run | sed "s/'//g") . >/tmp/seed_patch.log 2>&1); r_patch=$?
rm -f "$wt/$pkgdir/$demofile"
(cd "$wt/v8" && go build ./... && timeout 600 go test -vet=off -count=1 ./... >/tmp/seed_suite.log 2>&1); r_suite=$?
echo "RESULT $d demo_without_patch_exit=$r_nopatch demo_with_patch_exit=$r_patch suite_with_patch_exit=$r_suite"
