#!/usr/bin/env python3
# mkseeded.py: assemble /verif/seeded/<id>/ (patch.diff, demonstration, meta.json) from seeded_incoming and the
# results of seedall.sh (work/seedall.tsv). Only seeds confirmed on the current /repo HEAD are kept.
import json,os,shutil,subprocess,re
head=subprocess.run("git -C /repo log --format=%h -n 1",shell=True,capture_output=True,text=True).stdout.strip()
rows=[l.rstrip('\n').split('\t') for l in open('/verif/work/seedall.tsv') if '\t' in l]
shutil.rmtree('/verif/seeded',ignore_errors=True); os.makedirs('/verif/seeded')
summary=[]
for s,conf,res in rows:
    src='/verif/seeded_incoming/'+s
    meta=json.load(open(src+'/meta.json'))
    confirmed='demo_without_patch_exit=0 demo_with_patch_exit=1 suite_with_patch_exit=0' in conf
    if not confirmed:
        summary.append((s,'not valid on the current tree (demo does not fail with the patch, or the patch no longer applies)',''))
        continue
    d='/verif/seeded/'+s; os.makedirs(d)
    shutil.copy(src+'/patch.diff',d+'/patch.diff')
    if os.path.exists(src+'/patch_original.diff'): shutil.copy(src+'/patch_original.diff',d+'/patch_original.diff')
    demo=os.path.basename(meta.get('demo_file',''))
    if demo and os.path.exists(src+'/'+demo): shutil.copy(src+'/'+demo,d+'/'+demo)
    viol=re.findall(r'VIOLATION property=(\S+) replay=\S*/([^/\s]+)\.json',res)
    pid=s.split('_')[0]
    ran=re.findall(r'check=(C\d+)',res) or [pid]
    claimed='not claimed' not in res
    out={"property":meta.get('property',pid),"summary":meta.get('summary'),"breaks":meta.get('breaks'),"needs":meta.get('needs'),
         "demonstration":{"file":demo,"package_dir":meta.get('demo_pkg_dir'),"cmd":meta.get('demo_cmd')},
         "what_i_ran":["/verif/seedconfirm.sh (scratch git worktree of /repo at %s: demo passes without the patch, fails with it, the pinned suite passes with it)"%head,
                       "/verif/seedrun.sh <seed> %s quick (git -C /repo apply, ./check %s quick, git -C /repo checkout -- .)"%(' / '.join(ran),' / '.join(ran)) if claimed else "no check: the property is not claimed (not applicable)"],
         "confirmed_on_repo_commit":"between 1dcb5bb and %s (the commits in between touch only the keytab count field and contract files)"%head,"confirm_result":conf.split(' ',2)[-1] if conf else conf,
         "rebased":os.path.exists(src+'/patch_original.diff'),
         "check_result":{"exit":1 if viol else 0,"violations":[v[1] for v in viol][:6]},
         "detected":bool(viol) if claimed else None}
    json.dump(out,open(d+'/meta.json','w'),indent=1)
    summary.append((s,('detected by '+'/'.join(sorted(set(v[0] for v in viol)))) if viol else ('MISSED' if claimed else 'property not claimed'),', '.join(v[1][:60] for v in viol[:2])))
json.dump([{"seed":a,"result":b,"by":c} for a,b,c in summary],open('/verif/seeded/SUMMARY.json','w'),indent=1)
for r in summary: print('%-7s %-9s %s'%r)
