#!/bin/bash
# seedrun.sh <seed dir> <property id> [tier]: apply the seeded change to /repo, run the check, undo.
d=$1; pid=$2; tier=${3:-quick}
if [ -n "$(git -C /repo status --porcelain)" ]; then echo "refusing: /repo has uncommitted changes (commit them first)"; exit 9; fi
cd /repo && git apply --3way "$d/patch.diff" >/dev/null 2>&1 || { echo "apply failed"; git -C /repo reset -q --hard HEAD; exit 3; }
git -C /repo reset -q
cd /verif && ./check $pid $tier > /tmp/seedrun_$pid.log 2>&1; rc=$?
git -C /repo checkout -- .
echo "seed=$(basename $d) check=$pid exit=$rc"; grep -E "VIOLATION|undischarged|^C[0-9]+ " /tmp/seedrun_$pid.log | head -8
